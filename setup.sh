#!/bin/sh
# Offline setup: warm the Kani build of /repo/lib + harness crate and the Verus cache. Idempotent.
set -e
cd "$(dirname "$0")"
mkdir -p build evidence replay
cp /repo/Cargo.lock kani/Cargo.lock 2>/dev/null || true
( cd kani && RUSTFLAGS="--cfg locka99_opcua_verif" CARGO_NET_OFFLINE=true cargo kani -Z stubbing -Z function-contracts -Z unstable-options --no-overflow-checks --only-codegen >build_setup.log 2>&1 || { tail -30 build_setup.log; exit 1; } )
echo 'use vstd::prelude::*; verus!{ proof fn t() ensures 1 + 1 == 2int {} } fn main(){}' > build/warm.rs
verus build/warm.rs >/dev/null 2>&1 || true
echo setup ok
