"""Mechanical extraction of real items from /repo for Verus (engine V).

Only the rewrites of the fixed table below are applied; every application is recorded in the
extraction manifest of the run together with the sha256 of the source span:
  D1 delete logging macro statements (trace!/debug!/info!/warn!/error!), log_enabled!(..) -> false,
     delete `use log::...;`      (refused when an argument could have an effect)
  D2 derive/serde attribute lists on extracted enums/structs -> a fixed derive list; doc comments dropped
  D3 struct slicing (only the named fields are kept; computed by the unit, checked by rustc)
  D5 visibility normalised: pub(crate)/pub(super) -> pub
  D6 closure wildcard |_| -> |_w|
  D8 trait-impl method re-homed in an inherent impl (Self::Assoc substituted)
  D10 `&mut v[..]` on a named Vec local -> `v.as_mut_slice()` (same full mutable slice; vstd's IndexMut<RangeFull>
      specification forgets the vector length)
  D12 `&a[..]` on a named array local -> `a.as_slice()`
  S1 contract clauses / loop invariants / ghost statements spliced at anchors (spec and ghost text only)
A header that no longer matches is a lost anchor -> Undecided (exit 2), never an alarm."""
import re, os
from common import Undecided, LIB, sha16

LOG_MACROS = ('trace', 'debug', 'info', 'warn', 'error')
# argument expressions allowed inside a deleted logging call: literals, paths, field accesses, refs, and
# calls of these pure accessors
PURE_CALLS = {'len', 'as_ref', 'to_string', 'clone', 'as_str', 'is_some', 'is_none', 'is_empty', 'as_slice',
              'unwrap_or', 'min', 'max', 'ticks', 'value', 'name', 'format', 'into', 'iter', 'count', 'get',
              'node_id', 'as_u32', 'bits', 'is_null', 'to_vec', 'capacity', 'unwrap', 'to_uri', 'position',
              'as_bytes', 'to_usize', 'byte_len', 'size', 'checked_duration_since', 'signed_duration_since',
              'num_milliseconds', 'to_rfc3339', 'as_chrono', 'block_size', 'as_base64', 'last_modified'}


class Manifest:
    def __init__(self):
        self.items = []     # dict(file, name, first_line, n_lines, sha, rewrites)

    def add(self, **kw):
        self.items.append(kw)


def _skip_string(src, j):
    """src[j] == '"' ; returns index just after the closing quote (handles raw strings)."""
    k = j - 1
    hashes = 0
    while k >= 0 and src[k] == '#':
        hashes += 1
        k -= 1
    if k >= 0 and src[k] == 'r' and (k == 0 or not (src[k - 1].isalnum() or src[k - 1] == '_')):
        end = src.find('"' + '#' * hashes, j + 1)
        if end < 0:
            raise Undecided('unterminated raw string')
        return end + 1 + hashes
    j += 1
    while src[j] != '"':
        if src[j] == '\\':
            j += 1
        j += 1
    return j + 1


def _match(src, i, open_c, close_c):
    """src[i] == open_c; returns index of the matching close_c, skipping strings/chars/comments."""
    depth, j, n = 0, i, len(src)
    while j < n:
        c = src[j]
        if c == '/' and src[j:j + 2] == '//':
            j = src.find('\n', j)
            if j < 0:
                break
            continue
        if c == '/' and src[j:j + 2] == '/*':
            j = src.find('*/', j) + 2
            continue
        if c == '"':
            j = _skip_string(src, j)
            continue
        if c == "'":
            m = re.match(r"'(\\.|\\x[0-9a-fA-F]{2}|\\u\{[0-9a-fA-F]+\}|[^\\'])'", src[j:])
            if m:
                j += m.end()
                continue
        if c == open_c:
            depth += 1
        elif c == close_c:
            depth -= 1
            if depth == 0:
                return j
        j += 1
    raise Undecided('unbalanced %s%s' % (open_c, close_c))


class Src:
    def __init__(self, rel, manifest):
        self.rel = rel
        self.path = os.path.join(LIB, rel)
        try:
            self.text = open(self.path).read()
        except OSError as e:
            raise Undecided('lost anchor: file %s (%s)' % (rel, e))
        self.manifest = manifest

    def _line(self, pos):
        return self.text.count('\n', 0, pos) + 1

    def item(self, header_re, start=0, end=None, name=None, with_attrs=True):
        m = re.compile(header_re, re.M).search(self.text, start, end if end is not None else len(self.text))
        if not m:
            raise Undecided('lost anchor: %s in %s' % (header_re, self.rel))
        s = m.start()
        src = self.text
        while with_attrs and s > 0:
            prev_end = s - 1
            prev_start = src.rfind('\n', 0, prev_end) + 1
            prev = src[prev_start:prev_end].strip()
            if prev.startswith('#[') or prev.startswith('///'):
                s = prev_start
            else:
                break
        i = src.find('{', m.end() - 1)
        semi = src.find(';', m.end() - 1)
        if i < 0 or (0 <= semi < i):
            raise Undecided('lost anchor: %s has no body in %s' % (header_re, self.rel))
        j = _match(src, i, '{', '}')
        text = src[s:j + 1]
        self.manifest.add(file='lib/src/' + self.rel, name=name or header_re, first_line=self._line(s),
                          n_lines=text.count('\n') + 1, sha=sha16(text))
        return text, (s, j + 1)

    def impl_span(self, impl_re):
        m = re.compile(impl_re, re.M).search(self.text)
        if not m:
            raise Undecided('lost anchor: %s in %s' % (impl_re, self.rel))
        i = self.text.find('{', m.end() - 1)
        j = _match(self.text, i, '{', '}')
        return m.start(), j + 1

    def impl_fn(self, impl_re, fn_name):
        """the function `fn_name` of the first impl block matching impl_re that contains it"""
        pos = 0
        rx = re.compile(impl_re, re.M)
        while True:
            m = rx.search(self.text, pos)
            if not m:
                raise Undecided('lost anchor: fn %s in %s of %s' % (fn_name, impl_re, self.rel))
            i = self.text.find('{', m.end() - 1)
            j = _match(self.text, i, '{', '}')
            hdr = r'^[ \t]*(pub(\([a-z]+\))? )?(const )?(unsafe )?fn ' + re.escape(fn_name) + r'\b'
            if re.compile(hdr, re.M).search(self.text, m.start(), j + 1):
                return self.item(hdr, m.start(), j + 1, name='%s::%s' % (impl_re, fn_name))[0]
            pos = j + 1

    def free_fn(self, fn_name):
        return self.item(r'^(pub(\([a-z]+\))? )?fn ' + re.escape(fn_name) + r'\b', name='fn ' + fn_name)[0]

    def enum(self, name, derive='Copy, Clone, PartialEq, Eq, Structural'):
        t, _ = self.item(r'^(pub(\([a-z]+\))? )?enum ' + name + r'\b', name='enum ' + name)
        return norm_attrs(strip_docs(t), derive)

    def struct(self, name, derive=None, keep_fields=None):
        t, _ = self.item(r'^(pub(\([a-z]+\))? )?struct ' + name + r'\b', name='struct ' + name)
        t = norm_attrs(strip_docs(t), derive)
        if keep_fields is not None:
            t = slice_struct(t, keep_fields)
        return pub_fields(t)

    def const(self, name):
        m = re.search(r'^(pub(\([a-z]+\))? )?const ' + name + r": (?:&(?:'static )?)?[A-Za-z0-9_]+ = [^;]+;", self.text, re.M)
        if not m:
            raise Undecided('lost anchor: const %s in %s' % (name, self.rel))
        self.manifest.add(file='lib/src/' + self.rel, name='const ' + name, first_line=self._line(m.start()),
                          n_lines=1, sha=sha16(m.group(0)))
        return m.group(0)


# ----------------------------------------------------------------------------- rewrite table

def strip_docs(s):
    s = re.sub(r'^[ \t]*///.*\n', '', s, flags=re.M)
    return s


def strip_line_comments(s):
    return re.sub(r'^[ \t]*//.*\n', '', s, flags=re.M)


def norm_attrs(t, derive):
    """D2: drop derive/serde/repr-free attribute lines of an extracted type, put a fixed derive list."""
    t = re.sub(r'^[ \t]*#\[(derive|serde|allow|cfg_attr|derivative)\b[^\n]*\]\n', '', t, flags=re.M)
    t = re.sub(r'^[ \t]*#\[derive\((?:[^()]|\n)*\)\]\n', '', t, flags=re.M)
    if derive:
        t = '#[derive(%s)]\n' % derive + t
    return t


def norm_vis(s):
    """D5"""
    return re.sub(r'\bpub\((crate|super)\) ', 'pub ', s)


def pub_fields(t):
    """D5 (fields): private fields of an extracted struct become pub so specifications can mention them."""
    i = t.index('{')
    head, body = t[:i + 1], t[i + 1:]
    body = re.sub(r'(?m)^(\s*)(?!pub\b)([a-z_][a-z_0-9]*\s*:)', r'\1pub \2', body)
    return head + body


def full_slice_mut(s, var):
    """D10"""
    pat = r'&mut ' + re.escape(var) + r'\[\.\.\]'
    if not re.search(pat, s):
        raise Undecided('lost anchor: &mut %s[..]' % var)
    return re.sub(pat, var + '.as_mut_slice()', s)


def full_slice(s, var):
    """D12: `&arr[..]` on a named array/Vec local -> `arr.as_slice()` (same full slice; vstd relates as_slice to the view)"""
    pat = r'&' + re.escape(var) + r'\[\.\.\]'
    if not re.search(pat, s):
        raise Undecided('lost anchor: &%s[..]' % var)
    return re.sub(pat, var + '.as_slice()', s)


def closure_wild(s):
    """D6"""
    return re.sub(r'\|_\|', '|_w|', s)


def enumerate_to_index_loop(s, rewrites=None):
    """D15: `for (i, x) in v.iter().enumerate() { BODY }` over a slice/Vec `v` becomes the index loop it stands for,
        let mut i: usize = 0; while i < v.len() { let x = &v[i]; BODY i += 1; }
    (Enumerate<slice::Iter> yields (0, &v[0]), (1, &v[1]), ...). Only applied when BODY has no `continue` (which would
    skip the increment); `return`, `?` and `break` keep their meaning. The Enumerate adapter is outside the Verus dialect."""
    rx = re.compile(r'^([ \t]*)for \((\w+), (\w+)\) in (\w+)\.iter\(\)\.enumerate\(\) \{', re.M)
    while True:
        m = rx.search(s)
        if not m:
            return s
        ind, i, x, v = m.group(1), m.group(2), m.group(3), m.group(4)
        ob = m.end() - 1
        cb = _match(s, ob, '{', '}')
        body = s[ob + 1:cb]
        if re.search(r'\bcontinue\b', body):
            raise Undecided('unsupported construct: continue inside an enumerate loop (D15 not applicable)')
        new = ('%slet mut %s: usize = 0;\n%swhile %s < %s.len() {\n%s    let %s = &%s[%s];%s\n%s    %s += 1;\n%s}'
               % (ind, i, ind, i, v, ind, x, v, i, body.rstrip(), ind, i, ind))
        if rewrites is not None:
            rewrites.append('D15 enumerate loop over %s' % v)
        s = s[:m.start()] + new + s[cb + 1:]


def chunks_to_index_loop(s, rewrites=None):
    """D16: `let c = v.chunks(n);` becomes `let c = slice_chunks(&v, n);` (an environment function standing for
    <[T]>::chunks: panics for n == 0, otherwise ceil(len / n) pieces, piece i = v[i*n .. min((i+1)*n, len)]), and the loop
    `for (i, x) in c.enumerate() { BODY }` over that value becomes
        let mut i: usize = 0; while i < c.len() { let x = c.chunk_at(i); BODY i += 1; }
    (Enumerate<Chunks> yields (0, piece 0), (1, piece 1), ...), under the same no-`continue` condition as D15."""
    rx = re.compile(r'^([ \t]*)let (\w+) = (\w+)\.chunks\((\w+)\);', re.M)
    ms = list(rx.finditer(s))
    for m in reversed(ms):
        s = s[:m.start()] + '%slet %s = slice_chunks(&%s, %s);' % (m.group(1), m.group(2), m.group(3), m.group(4)) + s[m.end():]
    for c in [m.group(2) for m in ms]:
        lx = re.compile(r'^([ \t]*)for \((\w+), (\w+)\) in ' + c + r'\.enumerate\(\) \{', re.M)
        m = lx.search(s)
        if not m:
            continue
        ind, i, x = m.group(1), m.group(2), m.group(3)
        ob = m.end() - 1
        cb = _match(s, ob, '{', '}')
        body = s[ob + 1:cb]
        if re.search(r'\bcontinue\b', body):
            raise Undecided('unsupported construct: continue inside a chunks loop (D16 not applicable)')
        new = ('%slet mut %s: usize = 0;\n%swhile %s < %s.len() {\n%s    let %s = %s.chunk_at(%s);%s\n%s    %s += 1;\n%s}'
               % (ind, i, ind, i, c, ind, x, c, i, body.rstrip(), ind, i, ind))
        if rewrites is not None:
            rewrites.append('D16 chunks loop over %s' % c)
        s = s[:m.start()] + new + s[cb + 1:]
    return s


def vec_to_index_loop(s, rewrites=None):
    """D15 (by-value form): `for x in v { BODY }` over a local Vec `v` that is not used afterwards becomes
        let mut idx_x: usize = 0; while idx_x < v.len() { let x = &v[idx_x]; BODY idx_x += 1; }
    BODY sees a reference instead of the owned element; it must only use the element by reference (otherwise the
    assembled unit does not type-check and the run is UNDECIDED). Same no-`continue` condition."""
    rx = re.compile(r'^([ \t]*)for (\w+) in (\w+) \{', re.M)
    while True:
        m = rx.search(s)
        if not m:
            return s
        ind, x, v = m.group(1), m.group(2), m.group(3)
        i = 'idx_' + x
        ob = m.end() - 1
        cb = _match(s, ob, '{', '}')
        body = s[ob + 1:cb]
        if re.search(r'\bcontinue\b', body) or re.search(r'\b' + v + r'\b', s[cb:]):
            raise Undecided('unsupported construct: D15 not applicable to the by-value loop over %s' % v)
        new = ('%slet mut %s: usize = 0;\n%swhile %s < %s.len() {\n%s    let %s = &%s[%s];%s\n%s    %s += 1;\n%s}'
               % (ind, i, ind, i, v, ind, x, v, i, body.rstrip(), ind, i, ind))
        if rewrites is not None:
            rewrites.append('D15 by-value loop over %s' % v)
        s = s[:m.start()] + new + s[cb + 1:]


def for_each_to_index_loop(s, rewrites=None):
    """D21: the statement `V.into_iter().for_each(|x| { BODY });` over a local Vec `V` that is not used afterwards becomes
        let mut idx_x: usize = 0; while idx_x < V.len() { let x = &V[idx_x]; BODY idx_x += 1; }
    (for_each calls the closure once per element, in order). BODY sees a reference instead of the owned element, as in the
    by-value form of D15. Refused when BODY has `return`, `?`, `continue` or `break` (their meaning differs in a closure)."""
    rx = re.compile(r'^([ \t]*)(\w+)\s*\.into_iter\(\)\s*\.for_each\(\|(\w+)\|\s*\{', re.M)
    while True:
        m = rx.search(s)
        if not m:
            return s
        ind, v, x = m.group(1), m.group(2), m.group(3)
        i = 'idx_' + x
        ob = m.end() - 1
        cb = _match(s, ob, '{', '}')
        body = s[ob + 1:cb]
        tail = re.match(r'\s*\)\s*;', s[cb + 1:])
        if not tail or re.search(r'\b(continue|return|break)\b|\?', body) or re.search(r'\b' + v + r'\b', s[cb:]):
            raise Undecided('unsupported construct: D21 not applicable to for_each over %s' % v)
        new = ('%slet mut %s: usize = 0;\n%swhile %s < %s.len() {\n%s    let %s = &%s[%s];%s\n%s    %s += 1;\n%s}'
               % (ind, i, ind, i, v, ind, x, v, i, body.rstrip(), ind, i, ind))
        if rewrites is not None:
            rewrites.append('D21 for_each over %s' % v)
        s = s[:m.start()] + new + s[cb + 1 + tail.end():]


def extend_to_env(s, rewrites=None):
    """D22: the statement `E.extend(V.into_iter());` with a Vec place E and a local Vec V becomes `vec_extend(&mut E, V);` where
    `vec_extend` is an environment function standing for <Vec<T> as Extend<T>>::extend over vec::IntoIter<T>: every element of V is
    appended to E, in order (ensures final(E)@ == old(E)@ + V@)."""
    rx = re.compile(r'((?:self|\w+)(?:\s*\.\s*\w+)*)\s*\.extend\(\s*(\w+)\.into_iter\(\)\s*\)')

    def rep(m):
        if rewrites is not None:
            rewrites.append('D22 extend of %s by %s' % (re.sub(r'\s+', '', m.group(1)), m.group(2)))
        return 'vec_extend(&mut %s, %s)' % (re.sub(r'\s+', '', m.group(1)), m.group(2))
    return rx.sub(rep, s)


def ref_iter_to_index_loop(s, rewrites=None, with_decreases=False):
    """D23: `for x in &PLACE { BODY }` over a collection place (BTreeSet, Vec, ...) becomes
        let mut idx_x: usize = 0; while idx_x < iter_len(&PLACE) { let x = iter_nth(&PLACE, idx_x); BODY idx_x += 1; }
    where `iter_len` / `iter_nth` are environment functions the unit declares for the collection type, standing for its
    `IntoIterator for &C`: the elements in iteration order, each once. `for (k, v) in &PLACE` (a map) becomes the same loop
    over `kv_len` / `kv_nth` with `let (k, v) = kv_nth(&PLACE, idx_k);`. Same no-`continue` condition as D15.
    with_decreases: the loop also gets `decreases spec_iter_len(&PLACE) - idx` (resp. spec_kv_len), so that a unit whose
    proof needs no other invariant does not have to splice one (loop_isolation(false))."""
    rx = re.compile(r'^([ \t]*)for (\w+|\(\w+, \w+\)) in &((?:self\.)?\w+(?:\.\w+)*) \{', re.M)
    while True:
        m = rx.search(s)
        if not m:
            return s
        ind, x, v = m.group(1), m.group(2), m.group(3)
        kv = x.startswith('(')
        i = 'idx_' + (x[1:].split(',')[0] if kv else x)
        ln, nth = ('kv_len', 'kv_nth') if kv else ('iter_len', 'iter_nth')
        ob = m.end() - 1
        cb = _match(s, ob, '{', '}')
        body = s[ob + 1:cb]
        if re.search(r'\bcontinue\b', body) or re.search(r'\b' + i + r'\b', s):
            raise Undecided('unsupported construct: D23 not applicable to the loop over &%s' % v)
        dec = ('\n%s    decreases spec_%s(&%s) - %s,\n%s' % (ind, ln, v, i, ind)) if with_decreases else ' '
        new = ('%slet mut %s: usize = 0;\n%swhile %s < %s(&%s)%s{\n%s    let %s = %s(&%s, %s);%s\n%s    %s += 1;\n%s}'
               % (ind, i, ind, i, ln, v, dec, ind, x, nth, v, i, body.rstrip(), ind, i, ind))
        if rewrites is not None:
            rewrites.append('D23 by-reference loop over %s' % v)
        s = s[:m.start()] + new + s[cb + 1:]


def let_block(fn_text, var):
    """D25: the block of the statement `let VAR = { BLOCK };` inside an extracted function, verbatim (the unit wraps it in a
    function header of its own, naming the variables of the enclosing function the block reads as parameters)."""
    m = re.search(r'^[ \t]*let ' + re.escape(var) + r' = \{', fn_text, re.M)
    if not m:
        raise Undecided('lost anchor: let %s = { .. }' % var)
    ob = m.end() - 1
    cb = _match(fn_text, ob, '{', '}')
    if not re.match(r'\s*;', fn_text[cb + 1:]):
        raise Undecided('lost anchor: let %s = { .. };' % var)
    return fn_text[ob + 1:cb]


def stmt_block(fn_text, head_re, occurrence=0):
    """D25 (statement form): one `loop { .. }` / `while COND { .. }` statement of an extracted function, verbatim, found by the regular
    expression of its head line; the unit wraps it in a function header of its own that names the variables of the enclosing function
    the statement uses as parameters."""
    ms = list(re.finditer(head_re, fn_text, re.M))
    if occurrence >= len(ms):
        raise Undecided('lost anchor: statement %s' % head_re)
    m = ms[occurrence]
    ob = fn_text.index('{', m.end() - 1) if fn_text[m.end() - 1] != '{' else m.end() - 1
    cb = _match(fn_text, ob, '{', '}')
    ls = fn_text.rfind('\n', 0, m.start()) + 1
    return fn_text[ls:cb + 1] + '\n'


def map_collect_expr_to_loop(s, rewrites=None):
    """D19 (expression form): `E.iter().map(|x| BODY).collect()` / `.collect::<Vec<T>>()` over a Vec place E, or
    `E.values().map(|x| BODY).collect()` over a map place E, becomes the block expression it stands for:
        { let mut coll_N = Vec::new(); let mut idx_N: usize = 0;        (N: ordinal of the rewrite in this function)
          while idx_N < SRC.len() { let x = &SRC[idx_N]; let item_N = BODY; coll_N.push(item_N); idx_N += 1; }
          coll_N }
    with SRC = E for `.iter()`, and `let src_N = E.values();` (the environment gives the values in iteration order as a Vec of
    references) for `.values()`. BODY must be an expression without `return` / `?`."""
    rx = re.compile(r'((?:self|\w+)(?:\s*\.\s*\w+)*)\s*\.\s*(iter|values)\(\)\s*\.\s*map\(\|(\w+)\|\s*')
    n = 0
    pos = 0
    while True:
        m = rx.search(s, pos)
        if not m:
            return s
        e, kind, x = re.sub(r'\s+', '', m.group(1)), m.group(2), m.group(3)
        op = s.rfind('(', m.start(), m.end())
        cp = _match(s, op, '(', ')')
        tail = re.match(r'\s*\.\s*collect(::<\s*((?:Vec|HashSet)<.*?>)\s*>)?\(\)', s[cp + 1:], re.S)
        if not tail:
            pos = m.end()
            continue
        body = s[m.end():cp].strip()
        if re.search(r'\breturn\b|\?', body):
            raise Undecided('unsupported construct: map closure with early exit (D19 not applicable)')
        ty = (': ' + tail.group(2)) if tail.group(2) else ''
        is_set = bool(tail.group(2)) and tail.group(2).startswith('HashSet')
        ls = s.rfind('\n', 0, m.start()) + 1
        ind = re.match(r'[ \t]*', s[ls:]).group(0) + '    '
        src = e if kind == 'iter' else 'src_%d' % n
        pre = '' if kind == 'iter' else '%slet src_%d = %s.values();\n' % (ind, n, e)
        new = ('{\n' + pre + '%(i)slet mut coll_%(n)d%(ty)s = %(ctor)s::new();\n%(i)slet mut idx_%(n)d: usize = 0;\n'
               '%(i)swhile idx_%(n)d < %(src)s.len() {\n%(i)s    let %(x)s = &%(src)s[idx_%(n)d];\n%(i)s    let item_%(n)d = %(b)s;\n'
               '%(i)s    %(add)s\n%(i)s    idx_%(n)d += 1;\n%(i)s}\n%(i)scoll_%(n)d }') % dict(
                   i=ind, n=n, ty=ty, src=src, x=x, b=body, ctor='HashSet' if is_set else 'Vec',
                   add=('let _ = coll_%d.insert(item_%d);' % (n, n)) if is_set else ('coll_%d.push(item_%d);' % (n, n)))
        if rewrites is not None:
            rewrites.append('D19 map/collect expression over %s.%s()' % (e, kind))
        s = s[:m.start()] + new + s[cp + 1 + tail.end():]
        n += 1
        pos = m.start() + len(new)


SPEC_SPELLING = [('.wrapping_neg()', '.spec_wrapping_neg()')]


def sort_closure_spec(s, rewrites=None):
    """D24: a comparison closure `|a, b| EXPR` handed to sort_by / sort_unstable_by (EXPR an expression built from `.cmp(&..)`)
    is given a name for its result and the specification that says what EXPR computes:
        |a, b| -> (ord_out: Ordering) ensures ord_out == EXPR' { EXPR }      (EXPR' = EXPR with `.cmp(` spelled `.cmp_spec(`)
    The executable closure is unchanged; a closure without a specification is opaque to the verifier."""
    # D24k: `v.sort_by_key(|x| KEY)` is, by its definition in std, `v.sort_by(|a, b| KEY[a].cmp(&KEY[b]))` (same for the
    # unstable pair): spelled that way first, so that the key expression gets the same treatment as a comparison closure.
    rxk = re.compile(r'\.(sort_by_key|sort_unstable_by_key)\(\|(\w+)\|\s*')
    while True:
        m = rxk.search(s)
        if not m:
            break
        op = s.find('(', m.start())
        cp = _match(s, op, '(', ')')
        key = s[m.end():cp].strip()
        if key.startswith('{') or re.search(r'\breturn\b|\?|;|\|', key):
            raise Undecided('unsupported construct: sort key closure is not a plain expression (D24k not applicable)')
        ka = re.sub(r'\b%s\b' % re.escape(m.group(2)), 'key_a', key)
        kb = re.sub(r'\b%s\b' % re.escape(m.group(2)), 'key_b', key)
        if rewrites is not None:
            rewrites.append('D24k `%s(|%s| %s)` spelled as the comparison sort std defines it to be' % (m.group(1), m.group(2), key))
        s = s[:m.start()] + '.%s(|key_a, key_b| (%s).cmp(&(%s)))' % (m.group(1)[:-4], ka, kb) + s[cp + 1:]
    rx = re.compile(r'\.(sort_by|sort_unstable_by)\(\|(\w+), (\w+)\|\s*')
    pos = 0
    while True:
        m = rx.search(s, pos)
        if not m:
            return s
        op = s.find('(', m.start())
        cp = _match(s, op, '(', ')')
        expr = s[m.end():cp].strip()
        if expr.startswith('{') or '.cmp(' not in expr or re.search(r'\breturn\b|\?|;', expr):
            raise Undecided('unsupported construct: sort closure is not a plain comparison expression (D24 not applicable)')
        if re.search(r'[-+*/%^!<>]|\bas\b', expr):
            # arithmetic means something else in a specification (mathematical integers) than in the closure (machine integers):
            # the closure's own text would not be its specification
            raise Undecided('unsupported construct: sort closure computes with operators (D24 restates field accesses and method calls only)')
        spec = expr.replace('.cmp(', '.cmp_spec(')
        for exec_m, spec_m in SPEC_SPELLING:      # exec-only std methods with a spec twin in the unit's environment
            spec = spec.replace(exec_m, spec_m)
        new = '.%s(|%s, %s| -> (ord_out: Ordering) ensures ord_out == %s { %s })' % (m.group(1), m.group(2), m.group(3), spec, expr)
        if rewrites is not None:
            rewrites.append('D24 specification of the sort closure `%s`' % expr)
        s = s[:m.start()] + new + s[cp + 1:]
        pos = m.start() + len(new)


def format_to_env(s, rewrites=None):
    """D26: `format!(..)` with pure arguments becomes `format_text()`, an environment function returning an unspecified String: the
    text format! produces is not modelled (sound as long as the text only flows into functions whose results are themselves
    unspecified; anything proved holds for every text)."""
    rx = re.compile(r'\bformat!\(')
    while True:
        m = rx.search(s)
        if not m:
            return s
        op = m.end() - 1
        cp = _match(s, op, '(', ')')
        if not _args_pure(s[op + 1:cp]):
            raise Undecided('unsupported construct: format! with an argument that is not a pure accessor (D26 not applicable)')
        if rewrites is not None:
            rewrites.append('D26 format! text not modelled')
        s = s[:m.start()] + 'format_text()' + s[cp + 1:]


def instantiate_generic(fn_text, param, concrete, rewrites=None):
    """D13 (general form): a function generic in one type parameter `fn f<P>(..) where P: Bounds` is instantiated at the
    concrete type the unit names (the call sites under contract use it at that type): the parameter list `<P>` and the
    where clause go, `P` in the signature becomes the concrete type. The body is untouched (`x.into()`, `x.clone()` then
    resolve to the concrete type's own methods)."""
    i = body_open(fn_text)
    sig, body = fn_text[:i], fn_text[i:]
    sig2 = re.sub(r'(fn \w+)<' + param + r'>', r'\1', sig, count=1)
    if sig2 == sig:
        return fn_text
    sig2 = re.sub(r'\bwhere\s+' + param + r'\s*:[^{;]*$', '', sig2, flags=re.S).rstrip() + '\n    '
    sig2 = re.sub(r'\b' + param + r'\b', concrete, sig2)
    if rewrites is not None:
        rewrites.append('D13 %s instantiated at %s' % (param, concrete))
    return sig2 + body


def difference_for_each_to_loop(s, rewrites=None):
    """D21 (set difference form): the statement `A.difference(&B).for_each(|x| { BODY });` over two local HashSets becomes
        let mut idx_x: usize = 0;
        while idx_x < iter_len(&A) { let x = iter_nth(&A, idx_x); if !B.contains(x) { BODY } idx_x += 1; }
    (Difference yields the elements of A that are not in B, in A's iteration order, each once)."""
    rx = re.compile(r'^([ \t]*)(\w+)\s*\.difference\(&(\w+)\)\s*\.for_each\(\|(\w+)\|\s*\{', re.M)
    while True:
        m = rx.search(s)
        if not m:
            return s
        ind, a, b, x = m.group(1), m.group(2), m.group(3), m.group(4)
        i = 'idx_' + x
        ob = m.end() - 1
        cb = _match(s, ob, '{', '}')
        body = s[ob + 1:cb]
        tail = re.match(r'\s*\)\s*;', s[cb + 1:])
        if not tail or re.search(r'\b(continue|return|break)\b|\?', body):
            raise Undecided('unsupported construct: D21 not applicable to for_each over %s.difference(&%s)' % (a, b))
        new = ('%(d)slet mut %(i)s: usize = 0;\n%(d)swhile %(i)s < iter_len(&%(a)s) {\n%(d)s    let %(x)s = iter_nth(&%(a)s, %(i)s);\n'
               '%(d)s    if !%(b)s.contains(%(x)s) {%(body)s\n%(d)s    }\n%(d)s    %(i)s += 1;\n%(d)s}') % dict(d=ind, i=i, a=a, b=b, x=x, body=body.rstrip())
        if rewrites is not None:
            rewrites.append('D21 for_each over %s.difference(&%s)' % (a, b))
        s = s[:m.start()] + new + s[cb + 1 + tail.end():]


def set_for_each_to_loop(s, rewrites=None):
    """D21 (set form): the statement `S.into_iter().for_each(|x| { BODY });` over a local HashSet S that is not used afterwards
    becomes the loop over iter_len(&S) / iter_nth(&S, i) (the elements in iteration order, each once; BODY sees a reference)."""
    rx = re.compile(r'^([ \t]*)(\w+)\s*\.into_iter\(\)\s*\.for_each\(\|(\w+)\|\s*\{', re.M)
    while True:
        m = rx.search(s)
        if not m:
            return s
        ind, v, x = m.group(1), m.group(2), m.group(3)
        i = 'idx_' + x
        ob = m.end() - 1
        cb = _match(s, ob, '{', '}')
        body = s[ob + 1:cb]
        tail = re.match(r'\s*\)\s*;', s[cb + 1:])
        if not tail or re.search(r'\b(continue|return|break)\b|\?', body) or re.search(r'\b' + v + r'\b', s[cb:]):
            raise Undecided('unsupported construct: D21 not applicable to for_each over the set %s' % v)
        new = ('%(d)slet mut %(i)s: usize = 0;\n%(d)swhile %(i)s < iter_len(&%(v)s) {\n%(d)s    let %(x)s = iter_nth(&%(v)s, %(i)s);%(body)s\n'
               '%(d)s    %(i)s += 1;\n%(d)s}') % dict(d=ind, i=i, v=v, x=x, body=body.rstrip())
        if rewrites is not None:
            rewrites.append('D21 for_each over the set %s' % v)
        s = s[:m.start()] + new + s[cb + 1 + tail.end():]


def all_to_index_loop(s, rewrites=None):
    """D21 (all form): the statement `let _ = V.into_iter().all(|x| { BODY });` over a local Vec V that is not used afterwards becomes
        let mut idx_x: usize = 0;
        while idx_x < V.len() { let x = &V[idx_x]; let ok_x: bool = { BODY }; if !ok_x { break; } idx_x += 1; }
    (Iterator::all calls the closure on each element in order and stops at the first `false`; its result is discarded here)."""
    rx = re.compile(r'^([ \t]*)let _ = (\w+)\s*\.into_iter\(\)\s*\.all\(\|(\w+)\|\s*\{', re.M)
    while True:
        m = rx.search(s)
        if not m:
            return s
        ind, v, x = m.group(1), m.group(2), m.group(3)
        i = 'idx_' + x
        ob = m.end() - 1
        cb = _match(s, ob, '{', '}')
        body = s[ob + 1:cb]
        tail = re.match(r'\s*\)\s*;', s[cb + 1:])
        if not tail or re.search(r'\b(continue|return|break)\b|\?', body) or re.search(r'\b' + v + r'\b', s[cb:]):
            raise Undecided('unsupported construct: D21 not applicable to all() over %s' % v)
        new = ('%(d)slet mut %(i)s: usize = 0;\n%(d)swhile %(i)s < %(v)s.len() {\n%(d)s    let %(x)s = &%(v)s[%(i)s];\n'
               '%(d)s    let ok_%(x)s: bool = {%(body)s\n%(d)s    };\n%(d)s    if !ok_%(x)s { break; }\n%(d)s    %(i)s += 1;\n%(d)s}') % dict(
                   d=ind, i=i, v=v, x=x, body=body.rstrip())
        if rewrites is not None:
            rewrites.append('D21 all() over %s' % v)
        s = s[:m.start()] + new + s[cb + 1 + tail.end():]


def difference_collect_to_env(s, rewrites=None):
    """D19 (set difference form): `A.difference(&B).cloned().collect::<HashSet<T>>()` over two local HashSets becomes
    `set_difference(&A, &B)`, an environment function with HashSet::difference's meaning (the elements of A that are not in B)."""
    rx = re.compile(r'\b(\w+)\s*\.difference\(&(\w+)\)\s*\.cloned\(\)\s*\.collect::<\s*HashSet<[^>]*>\s*>\(\)')

    def rep(m):
        if rewrites is not None:
            rewrites.append('D19 difference of %s and %s collected' % (m.group(1), m.group(2)))
        return 'set_difference(&%s, &%s)' % (m.group(1), m.group(2))
    return rx.sub(rep, s)


def drain_for_each_to_loop(s, rewrites=None):
    """D21 (drain form): the statement `V.drain(..).for_each(|x| { BODY });` over a Vec place V becomes
        let mut idx_x: usize = 0; while idx_x < V.len() { let x = &V[idx_x]; BODY idx_x += 1; } V.clear();
    (drain(..) hands every element to the closure, in order, and leaves V empty; BODY sees a reference)."""
    rx = re.compile(r'^([ \t]*)(\w+)\s*\.drain\(\.\.\)\s*\.for_each\(\|(\w+)\|\s*\{', re.M)
    while True:
        m = rx.search(s)
        if not m:
            return s
        ind, v, x = m.group(1), m.group(2), m.group(3)
        i = 'idx_' + x
        ob = m.end() - 1
        cb = _match(s, ob, '{', '}')
        body = s[ob + 1:cb]
        tail = re.match(r'\s*\)\s*;', s[cb + 1:])
        if not tail or re.search(r'\b(continue|return|break)\b|\?', body):
            raise Undecided('unsupported construct: D21 not applicable to drain(..).for_each over %s' % v)
        new = ('%(d)slet mut %(i)s: usize = 0;\n%(d)swhile %(i)s < %(v)s.len() {\n%(d)s    let %(x)s = &%(v)s[%(i)s];%(body)s\n'
               '%(d)s    %(i)s += 1;\n%(d)s}\n%(d)s%(v)s.clear();') % dict(d=ind, i=i, v=v, x=x, body=body.rstrip())
        if rewrites is not None:
            rewrites.append('D21 drain(..).for_each over %s' % v)
        s = s[:m.start()] + new + s[cb + 1 + tail.end():]


def into_iter_collect_to_env(s, rewrites=None):
    """D19 (conversion forms): `X.into_iter().collect::<HashSet<T>>()` becomes `vec_into_set(X)` and `X.into_iter().collect()` becomes
    `into_vec(X)`: environment functions the unit declares with the meaning of collecting every element of X (a set holds each once;
    a Vec made from a set holds each element once, in the set's iteration order)."""
    def rep1(m):
        if rewrites is not None:
            rewrites.append('D19 %s collected into a HashSet' % m.group(1))
        return 'vec_into_set(%s)' % m.group(1)

    def rep2(m):
        if rewrites is not None:
            rewrites.append('D19 %s collected' % m.group(1))
        return 'into_vec(%s)' % m.group(1)
    def rep3(m):
        if rewrites is not None:
            rewrites.append('D19 %s cloned into a set' % m.group(1))
        return 'cloned_into_set(%s)' % m.group(1)
    # `X.iter().cloned().collect()` where the binding is annotated as a HashSet: an environment function with that meaning
    s = re.sub(r'(HashSet<[^=;\n]*> =\s*)(\w+)\.iter\(\)\.cloned\(\)\.collect\(\)', lambda m: m.group(1) + rep3(re.match(r'(\w+)', m.group(2))), s)
    s = re.sub(r'\b(\w+)\.into_iter\(\)\.collect::<\s*HashSet<[^>]*>\s*>\(\)', rep1, s)
    return re.sub(r'\b(\w+)\.into_iter\(\)\.collect\(\)', rep2, s)


def status_code_struct(manifest):
    """D14 for StatusCode: the `bitflags!` block of types/status_codes.rs becomes `struct StatusCode { bits: u32 }` with EVERY constant
    of the real file (value computed from its expression) and the real is_bad / is_uncertain / is_good / status (types/status_code.rs:
    contains(IS_ERROR), contains(IS_UNCERTAIN), neither, the upper 16 bits). A unit that uses it sees the same codes the code does."""
    src = Src('types/status_codes.rs', manifest)
    m = re.search(r'bitflags!\s*\{\s*(?:#\[[^\]]*\]\s*)*pub struct StatusCode: u32 \{', src.text)
    if not m:
        raise Undecided('lost anchor: bitflags struct StatusCode')
    i = src.text.index('{', m.end() - 1)
    j = _match(src.text, i, '{', '}')
    body = src.text[i + 1:j]
    consts = []
    for cm in re.finditer(r'^\s*const (\w+)\s*=\s*([0-9A-Fa-fx_<| ]+);', body, re.M):
        v = eval(cm.group(2).replace('_', ''), {'__builtins__': {}})
        consts.append('    pub const %s: StatusCode = StatusCode { bits: %d };' % (cm.group(1), v))
    if len(consts) < 200:
        raise Undecided('lost anchor: status code constants')
    manifest.add(file='lib/src/' + src.rel, name='bitflags StatusCode', first_line=src._line(m.start()),
                 n_lines=src.text.count('\n', m.start(), j) + 1, sha=sha16(src.text[m.start():j + 1]))
    return '''#[derive(Debug, Clone, Copy, PartialEq, Eq, Structural)]
pub struct StatusCode { pub bits: u32 }
#[allow(non_upper_case_globals)]
impl StatusCode {
%s
    pub fn bits(&self) -> (r: u32) ensures r == self.bits { self.bits }
    pub fn is_bad(&self) -> (r: bool) ensures r == (self.bits & 0x8000_0000 == 0x8000_0000) { self.bits & 0x8000_0000 == 0x8000_0000 }
    pub fn is_uncertain(&self) -> (r: bool) ensures r == (self.bits & 0x4000_0000 == 0x4000_0000) { self.bits & 0x4000_0000 == 0x4000_0000 }
    pub fn is_good(&self) -> (r: bool) ensures r == (self.bits & 0x8000_0000 != 0x8000_0000 && self.bits & 0x4000_0000 != 0x4000_0000)
    { !self.is_bad() && !self.is_uncertain() }
    pub fn status(&self) -> (r: StatusCode) ensures r.bits == self.bits & 0xffff_0000 { StatusCode { bits: self.bits & 0xffff_0000 } }
}
''' % '\n'.join(consts)


def position_to_loop(s, rewrites=None):
    """D17: the expression `E.iter().position(|x| PRED)` over a Vec/VecDeque place E (PRED an expression) becomes the search
    loop it stands for, as a block expression:
        { let mut pos_x: usize = 0; let mut found_x: Option<usize> = None;
          while found_x.is_none() && pos_x < E.len() { let x = &E[pos_x]; if PRED { found_x = Some(pos_x); } else { pos_x += 1; } }
          found_x }
    (position returns the index of the first element for which the closure is true). With `.iter().rev().position(..)` the loop
    looks at E[len - 1 - pos]: the index returned counts from the back."""
    rx = re.compile(r'((?:self|\w+)(?:\s*\.\s*\w+)*)\s*\.iter\(\)(\s*\.rev\(\))?\s*\.position\(\|(\w+)\|\s*')
    while True:
        m = rx.search(s)
        if not m:
            return s
        e = re.sub(r'\s+', '', m.group(1))
        rev = bool(m.group(2))
        x = m.group(3)
        op = s.rfind('(', m.start(), m.end())            # the '(' of position(
        cp = _match(s, op, '(', ')')
        pred = s[m.end():cp].strip()
        if pred.startswith('{') or re.search(r'\breturn\b|\?', pred):
            raise Undecided('unsupported construct: position closure with a block body or early exit (D17 not applicable)')
        new = ('{ let mut pos_%(x)s: usize = 0; let mut found_%(x)s: Option<usize> = None;\n'
               '            while found_%(x)s.is_none() && pos_%(x)s < %(e)s.len() {\n'
               '                let %(x)s = &%(e)s[pos_%(x)s];\n'
               '                if %(p)s { found_%(x)s = Some(pos_%(x)s); } else { pos_%(x)s += 1; }\n'
               '            }\n'
               '            found_%(x)s }') % dict(x=x, e=e, p=pred)
        if rev:
            # Rev<Iter>::position counts from the back: 0 is the LAST element
            new = new.replace('let %s = &%s[pos_%s];' % (x, e, x), 'let %s = &%s[%s.len() - 1 - pos_%s];' % (x, e, e, x))
        if rewrites is not None:
            rewrites.append('D17 position over %s%s' % (e, ' (reversed: the index counts from the back)' if rev else ''))
        s = s[:m.start()] + new + s[cp + 1:]


def retain_to_loop(s, rewrites=None):
    """D18: the statement `E.retain(|x| BODY);` over a Vec/VecDeque place E becomes the in-place filter loop it stands for:
        let mut idx_x: usize = 0;
        while idx_x < E.len() { let x = &E[idx_x]; let keep_x: bool = BODY; if keep_x { idx_x += 1; } else { let _ = E.remove(idx_x); } }
    (retain keeps exactly the elements for which the closure is true, in order). Refused when BODY has `return` or `?`."""
    rx = re.compile(r'^([ \t]*)((?:self|\w+)(?:\s*\.\s*\w+)*)\s*\.retain\(\|(\w+)\|\s*', re.M)
    while True:
        m = rx.search(s)
        if not m:
            return s
        ind = m.group(1)
        e = re.sub(r'\s+', '', m.group(2))
        x = m.group(3)
        op = s.rfind('(', m.start(), m.end())
        cp = _match(s, op, '(', ')')
        body = s[m.end():cp].strip()
        if re.search(r'\breturn\b|\?', body):
            raise Undecided('unsupported construct: retain closure with early exit (D18 not applicable)')
        end = cp + 1
        if s[end:end + 1] == ';':
            end += 1
        new = ('%(i)slet mut idx_%(x)s: usize = 0;\n%(i)swhile idx_%(x)s < %(e)s.len() {\n%(i)s    let %(x)s = &%(e)s[idx_%(x)s];\n'
               '%(i)s    let keep_%(x)s: bool = %(b)s;\n%(i)s    if keep_%(x)s { idx_%(x)s += 1; } else { let _ = %(e)s.remove(idx_%(x)s); }\n%(i)s}'
               ) % dict(i=ind, x=x, e=e, b=body)
        if rewrites is not None:
            rewrites.append('D18 retain over %s' % e)
        s = s[:m.start()] + new + s[end:]


def option_map_to_match(s, var, rewrites=None):
    """D20: `VAR.map(|x| BODY)` where VAR is a local of type Option<_> (named by the unit) becomes
        match VAR { Some(x) => Some(BODY), None => None }
    (Option::map applies the closure to the contained value). Refused when BODY has `return` or `?`."""
    rx = re.compile(r'\b' + re.escape(var) + r'\.map\(\|(\w+)\|\s*')
    m = rx.search(s)
    if not m:
        return s
    x = m.group(1)
    op = s.rfind('(', m.start(), m.end())
    cp = _match(s, op, '(', ')')
    body = s[m.end():cp].strip()
    if re.search(r'\breturn\b|\?', body):
        raise Undecided('unsupported construct: Option::map closure with early exit (D20 not applicable)')
    if rewrites is not None:
        rewrites.append('D20 Option::map on %s' % var)
    return s[:m.start()] + 'match %s { Some(%s) => Some(%s), None => None }' % (var, x, body) + s[cp + 1:]


def map_collect_to_loop(s, rewrites=None):
    """D19: the statement `let R = E.iter().map(|x| BODY).collect();` over a slice/Vec place E becomes the loop it stands for:
        let mut R = Vec::new();
        let mut idx_x: usize = 0;
        while idx_x < E.len() { let x = &E[idx_x]; let item_x = BODY; R.push(item_x); idx_x += 1; }
    (map + collect into a Vec yields BODY's value for each element, in order). Refused when BODY has `return` or `?`."""
    rx = re.compile(r'^([ \t]*)let (\w+) = ((?:self|\w+)(?:\s*\.\s*\w+)*)\s*\.iter\(\)\s*\.map\(\|(\w+)\|\s*', re.M)
    pos = 0
    while True:
        m = rx.search(s, pos)
        if not m:
            return s
        ind, r, e, x = m.group(1), m.group(2), re.sub(r'\s+', '', m.group(3)), m.group(4)
        op = s.rfind('(', m.start(), m.end())
        cp = _match(s, op, '(', ')')
        tail = re.match(r'\s*\.collect\(\)\s*;', s[cp + 1:])
        if not tail:
            pos = m.end()
            continue
        body = s[m.end():cp].strip()
        if re.search(r'\breturn\b|\?', body):
            raise Undecided('unsupported construct: map closure with early exit (D19 not applicable)')
        new = ('%(i)slet mut %(r)s = Vec::new();\n%(i)slet mut idx_%(x)s: usize = 0;\n%(i)swhile idx_%(x)s < %(e)s.len() {\n'
               '%(i)s    let %(x)s = &%(e)s[idx_%(x)s];\n%(i)s    let item_%(x)s = %(b)s;\n%(i)s    %(r)s.push(item_%(x)s);\n'
               '%(i)s    idx_%(x)s += 1;\n%(i)s}') % dict(i=ind, r=r, e=e, x=x, b=body)
        if rewrites is not None:
            rewrites.append('D19 map/collect over %s' % e)
        s = s[:m.start()] + new + s[cp + 1 + tail.end():]


def iter_to_index_loop(s, rewrites=None):
    """D15 (plain form): `for x in v.iter() { BODY }` over a slice/Vec `v` becomes
        let mut idx_x: usize = 0; while idx_x < v.len() { let x = &v[idx_x]; BODY idx_x += 1; }
    under the same condition (no `continue` in BODY)."""
    rx = re.compile(r'^([ \t]*)for (\w+) in ((?:self\.)?\w+(?:\.\w+)*)\.iter\(\) \{', re.M)
    while True:
        m = rx.search(s)
        if not m:
            return s
        ind, x, v = m.group(1), m.group(2), m.group(3)
        i = 'idx_' + x
        ob = m.end() - 1
        cb = _match(s, ob, '{', '}')
        body = s[ob + 1:cb]
        if re.search(r'\bcontinue\b', body) or re.search(r'\b' + i + r'\b', s):
            raise Undecided('unsupported construct: D15 not applicable to the loop over %s' % v)
        new = ('%slet mut %s: usize = 0;\n%swhile %s < %s.len() {\n%s    let %s = &%s[%s];%s\n%s    %s += 1;\n%s}'
               % (ind, i, ind, i, v, ind, x, v, i, body.rstrip(), ind, i, ind))
        if rewrites is not None:
            rewrites.append('D15 iter loop over %s' % v)
        s = s[:m.start()] + new + s[cb + 1:]


def slice_struct(t, keep):
    """D3: keep only the named fields (order preserved)."""
    i = t.index('{')
    head, body = t[:i + 1], t[i + 1:t.rindex('}')]
    out = []
    for ln in body.split('\n'):
        m = re.match(r'\s*(pub(\([a-z]+\))? )?([a-z_0-9]+)\s*:', ln)
        if m and m.group(3) in keep:
            out.append(ln)
    missing = [k for k in keep if not any(re.match(r'\s*(pub(\([a-z]+\))? )?' + k + r'\s*:', l) for l in out)]
    if missing:
        raise Undecided('lost anchor: struct field(s) %s' % missing)
    return head + '\n' + '\n'.join(out) + '\n}'


def _args_pure(args):
    """D1 side-effect guard: after removing string literals, every call in the arguments must be a pure accessor."""
    a = re.sub(r'"(\\.|[^"\\])*"', '""', args)
    if re.search(r'(?<![=!<>])=(?!=)', a) or '+=' in a or '-=' in a:
        return False
    for m in re.finditer(r'([A-Za-z_][A-Za-z0-9_]*)\s*(!?)\(', a):
        if m.group(2) == '!':
            if m.group(1) not in ('format', 'stringify'):
                return False
            continue
        if m.group(1) not in PURE_CALLS and not m.group(1)[0].isupper():
            return False
    return True


def strip_logging(s, rewrites=None):
    """D1"""
    for name in LOG_MACROS:
        while True:
            m = re.search(r'(?<![A-Za-z0-9_])' + name + r'!\s*\(', s)
            if not m:
                break
            i = m.end() - 1
            j = _match(s, i, '(', ')')
            args = s[i + 1:j]
            if not _args_pure(args):
                raise Undecided('unsupported construct: logging call with possibly effectful argument: %s!(%s)'
                                % (name, args.strip()[:80]))
            e = j + 1
            if s[e:e + 1] == ';':
                e += 1
            if rewrites is not None:
                rewrites.append('D1 %s!' % name)
            s = s[:m.start()] + s[e:]
    while True:
        m = re.search(r'log_enabled!\s*\(', s)
        if not m:
            break
        j = _match(s, m.end() - 1, '(', ')')
        s = s[:m.start()] + 'false' + s[j + 1:]
    s = re.sub(r'^[ \t]*use log::[^;]*;\n', '', s, flags=re.M)
    return s


def clean_fn(t):
    """the standard pipeline for an extracted function"""
    return closure_wild(strip_line_comments(strip_docs(strip_logging(t))))


def body_open(fn_text):
    """index of the '{' opening the fn body"""
    m = re.search(r'(?m)^\s*(requires|ensures)\b', fn_text)
    if m:
        # a contract has been spliced: splice_contract puts the body brace at the start of a line after the clauses
        bm = re.search(r'(?m)^[ \t]*\{', fn_text[m.end():])
        if not bm:
            raise Undecided('no fn body')
        return m.end() + bm.end() - 1
    i = fn_text.index('fn ')
    d = 0
    while i < len(fn_text):
        c = fn_text[i]
        if c in '([':
            d += 1
        elif c in ')]':
            d -= 1
        elif c == '<':
            d += 1
        elif c == '>' and fn_text[i - 1] != '-' and fn_text[i - 1] != '=':
            d -= 1
        elif c == '{' and d == 0:
            return i
        i += 1
    raise Undecided('no fn body')


_SPEC_HEAD = re.compile(r'^\s*(requires|ensures|recommends|decreases|invariant|invariant_except_break|returns|no_unwind|opens_invariants)\b')


def splice_contract(fn_text, clauses, ret_name=None):
    """S1: insert requires/ensures between signature and body; optionally name the return value."""
    head_lines = [l for l in clauses.strip().split('\n') if not l.strip().startswith('//')]
    if head_lines and not _SPEC_HEAD.match(head_lines[0]):
        raise Undecided('refusing to splice non-specification text as a contract')
    i = body_open(fn_text)
    head = fn_text[:i].rstrip()
    if ret_name:
        # the return arrow is the one that follows the parameter list (bounds in a where clause may contain arrows too)
        fm = re.search(r'\bfn\s+\w+', head)
        po = head.find('(', fm.end()) if fm else -1
        if po < 0:
            raise Undecided('lost anchor: fn has no parameter list')
        pc = _match(head, po, '(', ')')
        m = re.match(r'\s*->\s*(.+)$', head[pc + 1:], re.S)
        if not m:
            raise Undecided('lost anchor: fn has no return type to name')
        ty = m.group(1).strip()
        where = ''
        wm = re.search(r'\n\s*where\b', ty)
        if wm:
            ty, where = ty[:wm.start()].strip(), '\n    ' + ty[wm.start():].strip()
        head = head[:pc + 1] + ' -> (' + ret_name + ': ' + ty + ')' + where
    return head + '\n' + clauses.rstrip() + '\n    ' + fn_text[i:]


def splice_loop(fn_text, nth, spec):
    """S1: insert invariant/decreases after the header of the nth (0-based) while/for/loop of the function."""
    if not _SPEC_HEAD.match(spec.strip().split('\n')[0]):
        raise Undecided('refusing to splice non-specification text as a loop contract')
    start = body_open(fn_text)
    ms = [m for m in re.finditer(r'^[ \t]*(while|for|loop)\b', fn_text[start:], re.M)]
    if nth >= len(ms):
        raise Undecided('lost anchor: loop #%d' % nth)
    k = start + ms[nth].end()
    # find the '{' that opens the loop body: first '{' at paren depth 0
    d = 0
    while True:
        c = fn_text[k]
        if c in '([':
            d += 1
        elif c in ')]':
            d -= 1
        elif c == '{' and d == 0:
            break
        k += 1
    return fn_text[:k].rstrip() + '\n' + spec.rstrip() + '\n' + ' ' * 8 + fn_text[k:]


_GHOST_OK = re.compile(r'^\s*(proof\s*\{|let ghost\b|assert\s*\(|assert\s+forall|broadcast use\b)')


def splice_at(fn_text, anchor_re, ghost, before=True, occurrence=0):
    """S1: insert a ghost statement before/after the statement line matched by anchor_re."""
    if not _GHOST_OK.match(ghost):
        raise Undecided('refusing to splice non-ghost text')
    ms = list(re.finditer(anchor_re, fn_text, re.M))
    if occurrence >= len(ms):
        raise Undecided('lost anchor: %s' % anchor_re)
    m = ms[occurrence]
    if before:
        ls = fn_text.rfind('\n', 0, m.start()) + 1
        return fn_text[:ls] + ghost.rstrip() + '\n' + fn_text[ls:]
    le = fn_text.find('\n', m.end())
    return fn_text[:le + 1] + ghost.rstrip() + '\n' + fn_text[le + 1:]


def splice_body_start(fn_text, ghost):
    """S1: insert a ghost statement as the first statement of the fn body (may only mention parameters and old(..))."""
    if not _GHOST_OK.match(ghost):
        raise Undecided('refusing to splice non-ghost text')
    i = body_open(fn_text)
    return fn_text[:i + 1] + '\n' + ghost.rstrip() + fn_text[i + 1:]


def splice_body_end(fn_text, ghost):
    """S1: insert a ghost block at the end of the fn body: after the last statement, or before the tail expression when the
    body ends in one (the position is found structurally, not by the text of the statement)."""
    if not _GHOST_OK.match(ghost):
        raise Undecided('refusing to splice non-ghost text')
    ob = body_open(fn_text)
    cb = _match(fn_text, ob, '{', '}')
    lines = fn_text[ob + 1:cb].rstrip().split('\n')
    k = len(lines) - 1
    while k >= 0 and not lines[k].strip():
        k -= 1
    last = lines[k].strip() if k >= 0 else ''
    base = len(lines[k]) - len(lines[k].lstrip()) if k >= 0 else 8
    if last.endswith(';') or last.endswith('}') or not last:
        # ends in a statement (or in a block: `if .. {} else {}` as the unit-typed tail counts as a statement here only
        # when the function returns nothing — the caller knows)
        return fn_text[:ob + 1] + '\n'.join(lines[:k + 1]) + '\n' + ghost.rstrip() + '\n' + fn_text[cb - (len(fn_text[:cb]) - len(fn_text[:cb].rstrip(' \t'))):]
    # a single-line tail expression: the ghost block goes before it
    if last.count('(') != last.count(')') or base == 0:
        raise Undecided('unsupported construct: cannot place a ghost block before a multi-line tail expression')
    return fn_text[:ob + 1] + '\n'.join(lines[:k]) + '\n' + ghost.rstrip() + '\n' + lines[k] + '\n' + fn_text[cb - (len(fn_text[:cb]) - len(fn_text[:cb].rstrip(' \t'))):]


class Asm:
    """assembles the unit file and keeps a line map: assembled line -> (label, origin)"""

    def __init__(self):
        self.parts = []
        self.regions = []    # (first_line, last_line, label, kind)
        self.nlines = 0

    def add(self, text, label=None, kind=None):
        if not text.endswith('\n'):
            text += '\n'
        n = text.count('\n')
        if label:
            self.regions.append((self.nlines + 1, self.nlines + n, label, kind))
        self.parts.append(text)
        self.nlines += n

    def text(self):
        return ''.join(self.parts)

    def region_of(self, line):
        best = None
        for a, b, label, kind in self.regions:
            if a <= line <= b and (best is None or (b - a) < (best[1] - best[0])):
                best = (a, b, label, kind)
        return best


def add_proof_fns(asm, text, kind):
    """add a block of `proof fn`s (lemmas / witnesses / canaries), one labelled region per function;
    anything else in the block (spec fns, comments) is environment"""
    parts = re.split(r'(?m)^(?=(?:pub )?proof fn )', text)
    for part in parts:
        m = re.match(r'(?:pub )?proof fn (\w+)', part)
        if m:
            # comments / spec fns following the function's closing brace stay outside the region
            i = part.index('{', part.index(m.group(1)))
            # the body '{' is the first '{' at line start (signature clauses never start a line with '{')
            bm = re.search(r'(?m)^\{', part)
            i = bm.start() if bm else i
            j = _match(part, i, '{', '}')
            asm.add(part[:j + 1], m.group(1), kind)
            if part[j + 1:].strip():
                asm.add(part[j + 1:], None)
        elif part.strip():
            asm.add(part, None)
