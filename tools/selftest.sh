#!/bin/sh
# Mutation self-test: applies every stored seeded change to /repo in turn, runs the check of its property (scratch
# evidence directory), expects VIOLATION (or, for seeds recorded as NOT DETECTED, reports the gap), and restores the tree.
cd /verif
fail=0
for d in seeded/*/; do
  id=$(basename "$d")
  prop=$(python3 -c "import json;print(json.load(open('$d/meta.json'))['property'])")
  expect=$(python3 -c "import json;print('miss' if json.load(open('$d/meta.json'))['detected_by'].startswith('NOT DETECTED') else 'hit')")
  out=$(tools/try_seed.sh "$d/patch.diff" "$prop" 2>&1)
  if echo "$out" | grep -q "^VIOLATION property=$prop"; then got=hit; else got=miss; fi
  echo "$id ($prop): expected $expect, got $got"
  [ "$expect" = "$got" ] || fail=1
done
git -C /repo status --short | head -3
exit $fail
