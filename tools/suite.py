#!/usr/bin/env python3
"""Runs the repository's pinned suite (guard off) and checks that every stable-pass test of BASELINE.json passes."""
import json, re, subprocess, sys
repo = sys.argv[1] if len(sys.argv) > 1 else '/repo'
base = json.load(open('/root/.vp/BASELINE.json'))
stable = set(base['stable_pass'])
p = subprocess.run('cargo nextest run --workspace --no-fail-fast --tool-config-file pb:/w/lib/nextest.toml --profile pb '
                   '--test-threads 8 --offline --status-level all --final-status-level none', shell=True, cwd=repo, capture_output=True, text=True)
out = p.stdout + p.stderr
passed, failed = set(), set()
for m in re.finditer(r'^\s+(PASS|FAIL|SIGSEGV|TIMEOUT|SIGABRT)\s+\[[^\]]*\]\s+(?:\(\s*\d+/\d+\)\s+)?(\S+)\s+(\S+)', out, re.M):
    name = m.group(2) + '::' + m.group(3)
    (passed if m.group(1) == 'PASS' else failed).add(name)
missing = sorted(stable - passed)
print('passed %d, failed %d, stable-pass missing %d' % (len(passed), len(failed), len(missing)))
for n in missing:
    print('  NOT PASSING:', n)
if not passed:
    print(out[-3000:])
sys.exit(1 if missing else 0)
