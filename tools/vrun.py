"""Verus runner: assembles a unit from items extracted out of /repo's current working tree (tools/extract.py),
runs `verus <unit>.rs`, maps every verification error back to a named obligation (the extracted function or
lemma it belongs to), checks the vacuity canaries, scans the assembled file for assumptions."""
import importlib, json, os, re, subprocess, sys, time
from common import *
import extract

sys.path.insert(0, os.path.join(VERIF, 'units'))

VERUS_TIMEOUT = 600

_ASSUME_PAT = re.compile(r'(#\[verifier::external_body\]|assume_specification|#\[verifier::external_type_specification\]'
                         r'|\buninterp spec fn\b|\badmit\(\)|\bassume\()')


def scan_assumptions(text, unit):
    out = []
    lines = text.split('\n')
    for i, ln in enumerate(lines):
        if not _ASSUME_PAT.search(ln):
            continue
        if ln.strip().startswith('//'):
            continue
        sig = ln.strip()
        if 'external_body' in ln or 'external_type_specification' in ln:
            # the item header follows on one of the next lines
            for k in range(i, min(i + 6, len(lines))):
                m = re.search(r'\b(fn|struct|enum|proof fn)\s+([A-Za-z_0-9]+)', lines[k])
                if m and 'verifier' not in lines[k]:
                    sig = '%s %s %s' % ('external_body', m.group(1), m.group(2))
                    break
        elif 'assume_specification' in ln:
            m = re.search(r'assume_specification\s*(<[^\[]*>)?\s*\[([^\]]+)\]', ln)
            sig = 'assume_specification ' + (m.group(2).strip() if m else ln.strip()[:80])
        elif 'uninterp' in ln:
            m = re.search(r'uninterp spec fn\s+([A-Za-z_0-9]+)', ln)
            sig = 'uninterpreted ' + (m.group(1) if m else '')
        out.append('verus[%s]: %s' % (unit, sig))
    return sorted(set(out))


def parse_errors(stderr):
    """-> list of dict(kind, line, lines=[(lineno, label)], text)"""
    blocks = re.split(r'(?m)^(?=error(?:\[E\d+\])?: )', stderr)
    out = []
    for b in blocks:
        m = re.match(r'error(?:\[(E\d+)\])?: (.*)', b)
        if not m:
            continue
        kind = m.group(2).strip()
        if kind.startswith('aborting due to') or kind.startswith('could not compile'):
            continue
        pm = re.search(r'-->\s+\S+?:(\d+):(\d+)', b)
        line = int(pm.group(1)) if pm else 0
        labelled = []
        cur = None
        for ln in b.split('\n'):
            lm = re.match(r'\s*(\d+)\s*\|(.*)', ln)
            if lm:
                cur = int(lm.group(1))
                continue
            lm = re.match(r'\s*\|\s*[|_\- ^]*[-^]+\s*(.*)', ln)
            if lm and cur and lm.group(1).strip():
                labelled.append((cur, lm.group(1).strip()))
        out.append(dict(kind=kind, code=m.group(1), line=line, labelled=labelled, text=b.strip()[:2500]))
    return out


def _enclosing_proof_block(lines, line_no, lo, hi):
    """(first, last) line numbers (1-based) of the innermost `proof { .. }` block of the region [lo, hi] that contains line_no, or None"""
    best = None
    for k in range(lo - 1, min(hi, len(lines))):
        m = re.match(r'\s*proof\s*\{', lines[k])
        if not m:
            continue
        depth = 0
        end = None
        for q in range(k, min(hi, len(lines))):
            depth += lines[q].count('{') - lines[q].count('}')
            if depth <= 0:
                end = q
                break
        if end is None:
            continue
        if k + 1 <= line_no <= end + 1:
            if best is None or (end - k) < (best[1] - best[0]):
                best = (k + 1, end + 1)
    return best


def run_unit(unit, tier='quick', _extra_fns=None):
    ensure_dirs()
    mod = importlib.import_module(unit)
    importlib.reload(mod)
    manifest = extract.Manifest()
    U = mod.build(manifest)            # may raise Undecided (lost anchor / unsupported construct)
    asm = U['asm']
    pid = U['pid']
    # helper functions of the same source files that the extracted code calls but the unit does not list (a refactor
    # that introduces a local helper): extracted verbatim, without a contract, and verified like everything else
    for name, text in (_extra_fns or {}).items():
        last = asm.parts.pop()
        asm.nlines -= last.count('\n')
        asm.add(text, 'auto:' + name, 'fn')
        asm.add(last)
    path = os.path.join(BUILD, unit + '.rs')
    text = asm.text()
    open(path, 'w').write(text)
    json.dump(manifest.items, open(os.path.join(BUILD, unit + '.extraction.json'), 'w'), indent=1)
    cmd = ['verus', path, '--multiple-errors', '20', '--time', '--output-json'] + U.get('verus_args', [])
    t0 = time.time()
    try:
        p = subprocess.run(cmd, capture_output=True, text=True, timeout=VERUS_TIMEOUT, cwd=BUILD)
    except subprocess.TimeoutExpired:
        raise Undecided('verus timeout on unit %s' % unit)
    wall = time.time() - t0
    open(os.path.join(BUILD, unit + '.verus.log'), 'w').write(p.stdout + '\n==== stderr\n' + p.stderr)
    try:
        j = json.loads(p.stdout)
    except Exception:
        j = {}
    vr = j.get('verification-results', {})
    errs = parse_errors(p.stderr)
    if re.search(r"Internal Verus Error|thread 'rustc' .*panicked|error: internal compiler error", p.stderr):
        raise Undecided('verus crashed on unit %s: %s' % (unit, (re.search(r'Internal Verus Error[^\n]*', p.stderr) or re.search(r'panicked[^\n]*', p.stderr)).group(0)[:300]))
    missing = sorted(set(re.findall(r"error\[E0425\]: cannot find function `(\w+)` in this scope", p.stderr)))
    if missing and len(_extra_fns or {}) < 4:
        found = dict(_extra_fns or {})
        for name in missing:
            if name in found:
                continue
            for it in manifest.items:
                try:
                    src = extract.Src(it['file'][len('lib/src/'):], extract.Manifest())
                    t = src.free_fn(name)
                except Undecided:
                    continue
                t = extract.norm_vis(extract.clean_fn(t))
                found[name] = re.sub(r'^fn ', 'pub fn ', t, count=1)
                break
        if len(found) > len(_extra_fns or {}):
            return run_unit(unit, tier, _extra_fns=found)
    # the same for helper METHODS / associated functions (E0599): `impl S { fn helper .. }` in one of the unit's source files
    missing_m = sorted(set(re.findall(
        r"error\[E0599\]: no (?:method|associated function or constant|function or associated item) named `(\w+)` found for "
        r"(?:struct|mutable reference|reference|enum) `&?(?:mut )?(\w+)", p.stderr)))
    if missing_m and len(_extra_fns or {}) < 4:
        found = dict(_extra_fns or {})
        for name, owner in missing_m:
            key = '%s::%s' % (owner, name)
            if key in found:
                continue
            for it in manifest.items:
                try:
                    src = extract.Src(it['file'][len('lib/src/'):], extract.Manifest())
                    t = src.impl_fn(r'^impl(<[^>]*>)? ' + owner + r'\b[^{\n]*\{', name)
                except Undecided:
                    continue
                t = extract.norm_vis(extract.clean_fn(t))
                t = re.sub(r'^(\s*)fn ', r'\1pub fn ', t, count=1) if not re.match(r'\s*pub ', t) else t
                found[key] = 'impl %s {\n%s\n}\n' % (owner, t)
                break
        if len(found) > len(_extra_fns or {}):
            return run_unit(unit, tier, _extra_fns=found)
    if 'verified' not in vr:
        # rustc-level failure of the assembled file: renamed locals, lost splice anchors, dialect limits
        first = errs[0]['text'].split('\n')[0:6] if errs else [p.stderr[-400:]]
        raise Undecided('unit %s does not compile under Verus (edited tree outside the extraction table?): %s'
                        % (unit, ' / '.join(first)[:400]))
    smt_s = 0.0
    try:
        smt_s = j['times-ms']['smt']['total'] / 1000.0
    except Exception:
        smt_s = wall
    # Proof hints (`proof { .. }` blocks the unit spliced into a function) are scaffolding, not obligations. When one of them fails
    # — typically because the edited tree moved the statement it was attached to — the failure says nothing about the property, and
    # Verus goes on ASSUMING the failed assertion, which can hide a real failure further down. So: blank the failing hint block and
    # verify again (a false statement cannot become provable by removing hints; an unnecessary or misplaced hint stops mattering).
    dropped_hints = 0
    for _round in range(6):
        lines_now = text.split('\n')
        blocks = []
        for e in errs:
            if e['code']:
                continue
            reg = asm.region_of(e['line'])
            if reg is None or reg[3] != 'fn':
                continue
            span = _enclosing_proof_block(lines_now, e['line'], reg[0], reg[1])
            if span and span not in blocks:
                blocks.append(span)
        if not blocks:
            break
        for a_, b_ in blocks:
            for k in range(a_ - 1, b_):
                lines_now[k] = ''
        dropped_hints += len(blocks)
        text = '\n'.join(lines_now)
        path2 = os.path.join(BUILD, unit + '_retry.rs')
        open(path2, 'w').write(text)
        try:
            p = subprocess.run(['verus', path2] + cmd[2:], capture_output=True, text=True, timeout=VERUS_TIMEOUT, cwd=BUILD)
        except subprocess.TimeoutExpired:
            raise Undecided('verus timeout on unit %s' % unit)
        open(os.path.join(BUILD, unit + '.verus.log'), 'a').write('\n==== retry without %d failing proof hint(s)\n' % dropped_hints + p.stdout + '\n==== stderr\n' + p.stderr)
        try:
            j = json.loads(p.stdout)
        except Exception:
            j = {}
        vr = j.get('verification-results', {})
        errs = parse_errors(p.stderr)
        if 'verified' not in vr:
            raise Undecided('unit %s does not compile under Verus after dropping a failing proof hint' % unit)
    by_label = {}
    undecided = []
    for e in errs:
        reg = asm.region_of(e['line'])
        # a precondition failure is reported at the call site; other errors inside the function
        if reg is None or reg[3] == 'env':
            # reported at a callee's contract or inside a macro definition of the source file: the labelled spans
            # ("in this macro invocation", the call site) say which extracted function it belongs to
            for ln, _ in e['labelled']:
                r2 = asm.region_of(ln)
                if r2 and r2[3] != 'env':
                    reg = r2
                    break
        if U.get('only_kinds') and not e['code'] and not re.search(U['only_kinds'], e['kind']) and not (reg and reg[3] == 'canary'):
            continue    # an obligation of another property decided by the sibling variant of this unit
        if e['code']:
            # a rustc error (type/borrow/trait), not a verification condition: the assembled unit is broken
            undecided.append('verus %s: rustc error %s: %s (line %d)' % (unit, e['code'], e['kind'], e['line']))
            continue
        if re.search(r'rlimit|resource limit|timed out|solver (error|crashed)', e['kind'], re.I):
            undecided.append('verus %s: %s at line %d' % (unit, e['kind'], e['line']))
            continue
        if reg is None or reg[3] == 'env':
            undecided.append('verus %s: error outside any obligation region: %s (line %d)' % (unit, e['kind'], e['line']))
            continue
        by_label.setdefault(reg[2], []).append(e)

    def src_line(n):
        ls = text.split('\n')
        return ls[n - 1].strip() if 0 < n <= len(ls) else ''

    obligations, samples = [], []
    for a, b, label, kind in asm.regions:
        if kind not in ('fn', 'lemma', 'witness', 'canary'):
            continue
        es = by_label.get(label, [])
        oid = '%s.%s.%s' % (pid, U['short'], label)
        if kind == 'canary':
            if not es:
                undecided.append('verus %s: vacuity guard %s verified `false` — a precondition is contradictory' % (unit, label))
            continue
        if kind == 'witness':
            key = U['witness'][label]
            if es:
                obligations.append(dict(id=oid, engine='verus', unit=unit, kind='proof', status='fail', witness_for=key,
                                        detail=es[0]['kind'], raw=es[0]['text']))
            else:
                obligations.append(dict(id=oid, engine='verus', unit=unit, kind='proof', status='pass', witness_for=key,
                                        detail='witness lemma verified (finding gone)'))
            continue
        if not es:
            obligations.append(dict(id=oid, engine='verus', unit=unit, kind='proof', status='pass',
                                    detail='%s verified (lines %d-%d of %s)' % (kind, a, b, os.path.basename(path))))
            continue
        for e in es:
            slug = re.sub(r'[^a-z0-9]+', '_', e['kind'].lower()).strip('_')[:40]
            where = '; '.join('%s: `%s`' % (lab, src_line(ln)[:90]) for ln, lab in e['labelled'][:4])
            obligations.append(dict(id='%s.%s' % (oid, slug), engine='verus', unit=unit, kind='proof', status='fail',
                                    detail='%s — %s' % (e['kind'], where or src_line(e['line'])), raw=e['text'],
                                    twin=U.get('twins', {}).get(label)))
    # a loop the unit has no invariant for (the edited tree wrote a loop where there was none, or in another form): without an
    # invariant nothing after the loop can be proved, so a failed obligation of that function only says "needs an invariant"
    lines_all = text.split('\n')
    for a_, b_, label_, kind_ in asm.regions:
        if kind_ != 'fn':
            continue
        body_ = '\n'.join(lines_all[a_ - 1:b_])
        bare = 0
        for lm in re.finditer(r'^[ \t]*(while|for|loop)\b', body_, re.M):
            ob_ = body_.find('{', lm.end() - 1) if body_[lm.end() - 1:lm.end()] != '{' else lm.end() - 1
            # the loop body opens at the first '{' that starts a line or ends the header; the spliced clauses sit before it
            head_ = body_[lm.start():]
            m2 = re.search(r'\n[ \t]*\{[ \t]*\n|\{[ \t]*\n', head_)
            head_ = head_[:m2.start()] if m2 else head_[:200]
            if not re.search(r'\b(invariant|invariant_except_break|decreases)\b', head_):
                bare += 1
            elif not re.search(r'\b(invariant|invariant_except_break)\b', head_):
                # only a `decreases` (supplied by a rewrite): fine for a search loop that leaves through `return`, but a loop that
                # carries a result out in a variable declared before it needs an invariant about that variable
                ob2 = body_.find('{', lm.start() + len(head_))
                if ob2 >= 0:
                    depth, q = 0, ob2
                    while q < len(body_):
                        depth += (body_[q] == '{') - (body_[q] == '}')
                        if depth == 0:
                            break
                        q += 1
                    lb = body_[ob2:q]
                    declared = set(re.findall(r'\blet (?:mut )?(\w+)', lb))
                    assigned = set(re.findall(r'^[ \t]*(\w+)\s*(?:\+|-|\*)?=(?!=)', lb, re.M))
                    if any(not v.startswith('idx_') and v not in declared for v in assigned):
                        bare += 1
            elif lm.group(1) == 'loop' and not re.search(r'\b(ensures|invariant_except_break)\b', head_):
                # a `loop { .. break .. }` where the unit expected a `while`: the invariant it spliced does not say what holds at
                # the exits, so nothing after the loop can be concluded
                bare += 1
            else:
                # the loop has an invariant, written for the loop of the unchanged tree: a loop that assigns a variable declared
                # before it which the invariant does not mention carries something out that the invariant says nothing about
                ob2 = body_.find('{', lm.start() + len(head_))
                if ob2 >= 0:
                    depth, q = 0, ob2
                    while q < len(body_):
                        depth += (body_[q] == '{') - (body_[q] == '}')
                        if depth == 0:
                            break
                        q += 1
                    lb = body_[ob2:q]
                    # what a nested loop assigns is the business of that loop's invariant: leave nested loop bodies out
                    while True:
                        nm = re.search(r'^[ \t]*(while|for|loop)\b', lb[1:], re.M)
                        if not nm:
                            break
                        h2 = re.search(r'\n[ \t]*\{[ \t]*\n|\{[ \t]*\n', lb[1 + nm.start():])
                        if not h2:
                            break
                        o3 = lb.find('{', 1 + nm.start() + h2.start())
                        d3, q3 = 0, o3
                        while q3 < len(lb):
                            d3 += (lb[q3] == '{') - (lb[q3] == '}')
                            if d3 == 0:
                                break
                            q3 += 1
                        lb = lb[:1 + nm.start()] + lb[q3 + 1:]
                    declared = set(re.findall(r'\blet (?:ghost )?(?:mut )?(\w+)', lb))
                    assigned = set(re.findall(r'^[ \t]*(\w+)\s*(?:\+|-|\*)?=(?!=)', lb, re.M))
                    if any(v not in declared and not re.search(r'\b%s\b' % re.escape(v), head_) for v in assigned):
                        bare += 1
        oid_ = '%s.%s.%s' % (pid, U['short'], label_)
        fails_ = [o for o in obligations if o['status'] == 'fail' and (o['id'] == oid_ or o['id'].startswith(oid_ + '.'))]
        if bare and fails_:
            undecided.append('verus %s: %s contains %d loop(s) this unit has no (exit) invariant for: %d failed obligation(s) may only mean '
                             'that the loop needs an invariant' % (unit, label_, bare, len(fails_)))
            obligations = [o for o in obligations if o not in fails_]
    if _extra_fns and any(o['status'] == 'fail' for o in obligations):
        # the edited tree calls helper functions this unit has no contract for: they were extracted verbatim, but a caller only
        # sees a callee's contract, so a failed obligation here cannot be told from "the helper needs a contract" — undecided
        nfail = sum(1 for o in obligations if o['status'] == 'fail')
        undecided.append('verus %s: the extracted code calls %s, which this unit has no contract for (a helper introduced by the '
                         'change?): %d failed obligation(s) may only mean that the helper needs a contract'
                         % (unit, ', '.join(sorted(_extra_fns)), nfail))
        obligations = [o for o in obligations if o['status'] != 'fail']
    n_fn = sum(1 for r in asm.regions if r[3] in ('fn', 'lemma'))
    if n_fn == 0:
        undecided.append('verus %s: no obligations generated' % unit)
    # cross-check against Verus' own count: it must have verified at least the items reported as discharged here
    n_pass = sum(1 for o in obligations if o['status'] == 'pass' and not o.get('witness_for'))
    if vr.get('verified', 0) < n_pass:
        undecided.append('verus %s: verifier reports %d verified items but %d obligations would be counted as discharged'
                         % (unit, vr.get('verified', 0), n_pass))
    for o in obligations[:3]:
        samples.append(dict(obligation=o['id'], status=o['status'], what=o['detail'][:160]))
    for label, clause in list(U.get('clauses', {}).items())[:3]:
        samples.append(dict(obligation='%s.%s.%s' % (pid, U['short'], label), contract=clause.strip()[:600]))
    functions = ['%s:%s (%d lines, sha %s)' % (it['file'], it['name'].split('::')[-1] if '::' in it['name'] else it['name'],
                                               it['n_lines'], it['sha']) for it in manifest.items]
    return dict(obligations=obligations, assumptions=scan_assumptions(text, unit) + U.get('assumptions', []),
                functions=functions, samples=samples, solver_s=smt_s, undecided=undecided,
                cmd='verus build/%s.rs --multiple-errors 20 [%d verified, %d errors reported by verus]' % (
                    unit, vr.get('verified', 0), vr.get('errors', 0)),
                verified=vr.get('verified', 0))
