#!/bin/sh
# usage: try_seed.sh <patch file> <property id>...   — applies a seeded change to /repo, runs the checks with a scratch
# evidence directory (committed evidence must come from the unchanged tree), reverts the change.
P=$1; shift
cd /repo && git apply "$P" || exit 2
cd /verif
mkdir -p /var/tmp/ev_scratch
for id in "$@"; do
  VERIF_EVIDENCE_DIR=/var/tmp/ev_scratch ./check "$id" 2>&1 | cut -c1-260
  echo "exit=$? ($id)"
done
git -C /repo checkout -- .
rm -rf /var/tmp/ev_scratch
