#!/usr/bin/env python3
"""seed_finalize.py <seed id> <property> <worktree> <needs-to-manifest> <detected-by>  — writes meta.json, removes the worktree"""
import json, os, subprocess, sys
sid, pid, wt, needs, detected = sys.argv[1:6]
d = os.path.join('/verif/seeded', sid)
confirm = open(os.path.join(d, 'confirm.log')).read() if os.path.exists(os.path.join(d, 'confirm.log')) else ''
meta = dict(id=sid, property=pid, needs_to_manifest=needs, detected_by=detected,
            confirmed=dict(demo_fails_with_change='FAILED' in confirm.split('== with change: whole lib suite')[0],
                           demo_passes_without_change='ok' in confirm.split('== without change: demo')[-1],
                           existing_suite_with_change=[l for l in confirm.splitlines() if l.startswith('test result')][1:2],
                           log='confirm.log'),
            ran=['tools/confirm_seed.sh (cargo test --offline -p opcua --lib, with and without patch.diff, in a scratch worktree)',
                 'git -C /repo apply seeded/%s/patch.diff; ./check %s; git -C /repo checkout -- .' % (sid, pid)])
json.dump(meta, open(os.path.join(d, 'meta.json'), 'w'), indent=1)
subprocess.run(['git', '-C', '/repo', 'worktree', 'remove', '--force', wt])
print(json.dumps(meta, indent=1)[:600])
