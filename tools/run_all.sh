#!/bin/sh
# runs every claimed check (quick tier by default) on /repo's current tree and prints one line per property
cd "$(dirname "$0")/.."
TIER=${1:-quick}
for id in $(python3 -c "import json;print(' '.join(c['property_id'] for c in json.load(open('MANIFEST.json'))['checks']))"); do
  s=$(date +%s)
  out=$(./check $id --tier $TIER 2>&1 | grep -E "^(OK|VIOLATION|UNDECIDED)" | head -3 | cut -c1-160)
  echo "$id $(( $(date +%s) - s ))s: $out"
done
