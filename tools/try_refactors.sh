#!/bin/sh
# usage: try_refactors.sh <dir with refactorN.diff> <property id>...  — behaviour-preserving refactorings must never give VIOLATION
D=$1; shift
for p in $D/refactor*.diff; do
  for id in "$@"; do
    r=$(/verif/tools/try_seed.sh $p $id 2>&1 | grep -E "^(OK|VIOLATION|UNDECIDED)" | head -2 | cut -c1-230 | tr '\n' ' ')
    echo "$(basename $p) $id: $r"
  done
done
