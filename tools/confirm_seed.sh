#!/bin/sh
# usage: confirm_seed.sh <worktree> <demo test filter> <out dir>
# In the scratch worktree (breaking change + demo applied): demo fails with the change, existing lib tests pass
# with the change (demo excluded), demo passes without the change.
WT=$1; FILTER=$2; OUT=$3
mkdir -p "$OUT"
cd "$WT" || exit 2
{
echo "== with change: demo"
cargo test --offline -p opcua --lib "$FILTER" 2>&1 | grep -E "^test |test result" | tail -8
echo "== with change: whole lib suite"
cargo test --offline -p opcua --lib 2>&1 | grep -E "^test .*FAILED|test result" | tail -12
git apply -R seeded_out/patch.diff || echo "REVERT FAILED"
echo "== without change: demo"
cargo test --offline -p opcua --lib "$FILTER" 2>&1 | grep -E "^test |test result" | tail -8
git apply seeded_out/patch.diff
} > "$OUT/confirm.log" 2>&1
echo done >> "$OUT/confirm.log"
