"""Shared pieces of the /verif machinery: paths, exit codes, known findings, evidence, replay files."""
import json, os, re, sys, time, hashlib, subprocess

VERIF = os.path.dirname(os.path.dirname(os.path.abspath(__file__)))
REPO = os.environ.get('VERIF_REPO', '/repo')
LIB = os.path.join(REPO, 'lib', 'src')
# VERIF_EVIDENCE_DIR: scratch location used when a check is run against a deliberately broken tree (seeded changes),
# so that the committed evidence always comes from the unchanged tree
EVID = os.environ.get('VERIF_EVIDENCE_DIR') or os.path.join(VERIF, 'evidence')
REPLAY = os.path.join(VERIF, 'replay')
BUILD = os.path.join(VERIF, 'build')          # assembled Verus files, logs (git-ignored)
KANI_DIR = os.path.join(VERIF, 'kani')
KNOWN = os.path.join(VERIF, 'known_findings.txt')
GUARD = 'locka99_opcua_verif'

EXIT_OK, EXIT_VIOLATION, EXIT_UNDECIDED = 0, 1, 2


class Undecided(Exception):
    """Lost anchor, unsupported construct, tool crash, budget exceeded: never an alarm (exit 2)."""


def sha16(s):
    return hashlib.sha256(s.encode()).hexdigest()[:16]


def ensure_dirs():
    for d in (EVID, REPLAY, BUILD):
        os.makedirs(d, exist_ok=True)


def load_known():
    """known_findings.txt lines:
         finding: property=<id> key=<finding key> :: <what fails>
         fixed: property=<id> <commit> <what failed>
       A finding key is the name of the witness obligation (a Kani harness or a Verus must-fail
       lemma) that reproduces exactly that input class."""
    findings, fixed = [], []
    if not os.path.exists(KNOWN):
        return findings, fixed
    for line in open(KNOWN):
        line = line.rstrip('\n')
        if line.startswith('finding:'):
            m = re.match(r'finding:\s+property=(\S+)\s+key=(\S+)\s+::\s+(.*)', line)
            if m:
                findings.append(dict(property=m.group(1), key=m.group(2), text=m.group(3)))
        elif line.startswith('fixed:'):
            m = re.match(r'fixed:\s+property=(\S+)\s+(\S+)\s+(.*)', line)
            if m:
                fixed.append(dict(property=m.group(1), commit=m.group(2), text=m.group(3)))
    return findings, fixed


def write_replay(pid, obligation, engine, detail):
    ensure_dirs()
    name = re.sub(r'[^A-Za-z0-9_.-]', '_', obligation)
    path = os.path.join(REPLAY, '%s.%s.json' % (pid, name))
    detail = dict(detail)
    detail.update(property_id=pid, obligation=obligation, engine=engine,
                  repo_head=git_head(REPO), written_at=time.strftime('%Y-%m-%dT%H:%M:%SZ', time.gmtime()))
    with open(path, 'w') as f:
        json.dump(detail, f, indent=1)
    return path


def git_head(path):
    try:
        return subprocess.run(['git', '-C', path, 'rev-parse', '--short', 'HEAD'], capture_output=True,
                              text=True).stdout.strip()
    except Exception:
        return '?'


def write_evidence(pid, tier, level, coverage, assumptions, wall_s, violations, extra=None):
    ensure_dirs()
    ev = dict(property_id=pid, tier=tier, seed=int(os.environ.get('VERIF_SEED', '0') or 0), level=level,
              coverage=coverage, assumptions=assumptions, wall_s=round(wall_s, 2), violations=violations)
    if extra:
        ev.update(extra)
    with open(os.path.join(EVID, pid + '.json'), 'w') as f:
        json.dump(ev, f, indent=1)
    return ev
