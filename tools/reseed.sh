#!/bin/sh
# usage: tools/reseed.sh  — re-run every saved seed against its property's check (scratch evidence), one line per seed
cd /verif
for d in seeded/*/; do
  s=$(basename $d)
  p=$(python3 -c "import json;print(json.load(open('$d/meta.json'))['property'])" 2>/dev/null)
  [ -z "$p" ] && continue
  if ! git -C /repo apply --check /verif/$d/patch.diff 2>/dev/null; then echo "$s $p: PATCH DOES NOT APPLY"; continue; fi
  git -C /repo apply /verif/$d/patch.diff
  out=$(VERIF_EVIDENCE_DIR=/var/tmp/ev_reseed ./check $p 2>&1 | grep -E "^(OK|VIOLATION|UNDECIDED)" | sort -u | head -2 | cut -c1-170 | tr '\n' ' ')
  git -C /repo checkout -- .
  echo "$s $p: $out"
done
rm -rf /var/tmp/ev_reseed
