#!/bin/sh
# usage: tools/reseed.sh ["C08 C10 .."]  — re-run every saved seed (of the listed properties, default all) against its property's check
# (scratch evidence), one line per seed. Seeds of properties with Kani harnesses take minutes each (the crate is rebuilt for every change).
cd /verif
for d in seeded/*/; do
  s=$(basename $d)
  p=$(python3 -c "import json;print(json.load(open('$d/meta.json'))['property'])" 2>/dev/null)
  [ -z "$p" ] && continue
  if [ -n "$1" ]; then case " $1 " in *" $p "*) ;; *) continue;; esac; fi
  if ! git -C /repo apply --check /verif/$d/patch.diff 2>/dev/null; then echo "$s $p: PATCH DOES NOT APPLY"; continue; fi
  git -C /repo apply /verif/$d/patch.diff
  out=$(VERIF_EVIDENCE_DIR=/var/tmp/ev_reseed ./check $p 2>&1 | grep -E "^(OK|VIOLATION|UNDECIDED)" | sort -u | head -2 | cut -c1-170 | tr '\n' ' ')
  git -C /repo checkout -- .
  echo "$s $p: $out"
done
rm -rf /var/tmp/ev_reseed
