"""Kani runner: runs named harnesses of /verif/kani (which depends on /repo/lib by path, so every run
recompiles the current working tree), parses per-harness verdicts and failed checks, obtains a
concrete counterexample for a failing harness, and replays recorded counterexamples natively."""
import json, os, re, signal, subprocess, sys, time, threading
from common import *

KANI_FLAGS = ['-Z', 'stubbing', '-Z', 'function-contracts', '-Z', 'unstable-options', '--no-overflow-checks']


def _env():
    e = dict(os.environ)
    e['RUSTFLAGS'] = '--cfg ' + GUARD
    e['CARGO_NET_OFFLINE'] = 'true'
    e.pop('CARGO_TARGET_DIR', None)
    return e


def _sync_lock():
    # the harness crate resolves against the repository's own lock file
    src = os.path.join(REPO, 'Cargo.lock')
    dst = os.path.join(KANI_DIR, 'Cargo.lock')
    try:
        if open(src).read() != (open(dst).read() if os.path.exists(dst) else ''):
            open(dst, 'w').write(open(src).read())
    except OSError:
        pass


def _kill_tree(proc):
    try:
        os.killpg(os.getpgid(proc.pid), signal.SIGKILL)
    except Exception:
        pass


def _run(cmd, timeout_s, log_path):
    with open(log_path, 'w') as log:
        proc = subprocess.Popen(cmd, cwd=KANI_DIR, env=_env(), stdout=log, stderr=subprocess.STDOUT,
                                start_new_session=True)
        try:
            rc = proc.wait(timeout=timeout_s)
            timed_out = False
        except subprocess.TimeoutExpired:
            _kill_tree(proc)
            rc, timed_out = -9, True
    return rc, timed_out, open(log_path, errors='replace').read()


_RE_CHECKING = re.compile(r'^(?:Thread (\d+): )?Checking harness (\S+?)\.\.\.\s*$')
_RE_THREAD = re.compile(r'^Thread (\d+): ?$')
_RE_COUNTS = re.compile(r'\*\* (\d+) of (\d+) failed(?: \((.*)\))?')
_RE_COVER = re.compile(r'\*\* (\d+) of (\d+) cover properties satisfied')
_RE_FAILED = re.compile(r'^Failed Checks: (.*)$')
_RE_FILE = re.compile(r'^ File: "(.*)", line (\d+), in (.*)$')


def parse_terse(text):
    """-> {harness: dict(status, failed=[{desc,file,line,func}], n_checks, n_failed, cover_sat, cover_total, time_s, raw)}"""
    res, cur_by_thread, cur = {}, {}, None
    lines = text.splitlines()
    active = None   # harness whose block we are in
    for i, ln in enumerate(lines):
        m = _RE_CHECKING.match(ln)
        if m:
            t, h = m.group(1), m.group(2)
            cur_by_thread[t] = h
            res.setdefault(h, dict(status='undecided', failed=[], n_checks=0, n_failed=0, cover_sat=0,
                                   cover_total=0, time_s=None, raw=[]))
            if t is None:
                active = h
            continue
        m = _RE_THREAD.match(ln)
        if m:
            active = cur_by_thread.get(m.group(1))
            continue
        if active is None or active not in res:
            continue
        r = res[active]
        r['raw'].append(ln)
        m = _RE_COUNTS.search(ln)
        if m:
            r['n_failed'], r['n_checks'] = int(m.group(1)), int(m.group(2))
            continue
        m = _RE_COVER.search(ln)
        if m:
            r['cover_sat'], r['cover_total'] = int(m.group(1)), int(m.group(2))
            continue
        m = _RE_FAILED.match(ln)
        if m:
            r['failed'].append(dict(desc=m.group(1).strip().strip('"'), file='', line=0, func=''))
            continue
        m = _RE_FILE.match(ln)
        if m and r['failed'] and not r['failed'][-1]['file']:
            r['failed'][-1].update(file=m.group(1), line=int(m.group(2)), func=m.group(3))
            continue
        if ln.startswith('VERIFICATION:- '):
            v = ln[len('VERIFICATION:- '):].strip()
            if v.startswith('SUCCESSFUL'):
                r['status'] = 'pass'
            elif v.startswith('FAILED'):
                # a FAILED verdict without any failed check listed is a tool problem (timeout, cbmc crash)
                r['status'] = 'fail' if r['failed'] else 'undecided'
            continue
        m = re.match(r'^Verification Time: ([0-9.]+)s', ln)
        if m:
            r['time_s'] = float(m.group(1))
            continue
        if 'CBMC failed' in ln or 'timed out' in ln.lower() or 'out of memory' in ln.lower():
            r['tool_error'] = ln.strip()
    for r in res.values():
        if r.get('tool_error') and r['status'] == 'fail' and not r['failed']:
            r['status'] = 'undecided'
        r['raw'] = '\n'.join(r['raw'][-60:])
    return res


def run_harnesses(names, jobs=8, harness_timeout_s=120, total_timeout_s=1500, tag='kani', extra=None):
    """Run the given fully qualified harness names in one cargo-kani invocation."""
    ensure_dirs()
    _sync_lock()
    cmd = ['cargo', 'kani'] + KANI_FLAGS + ['--exact', '--output-format=terse', '-j', str(max(2, jobs)),
                                             '--harness-timeout', '%ds' % harness_timeout_s]
    for n in names:
        cmd += ['--harness', n]
    if extra:
        cmd += extra
    log_path = os.path.join(BUILD, tag + '.log')
    t0 = time.time()
    rc, timed_out, text = _run(cmd, total_timeout_s, log_path)
    wall = time.time() - t0
    res = parse_terse(text)
    problem = None
    if timed_out:
        problem = 'kani run exceeded total budget %ds' % total_timeout_s
    elif 'error: could not compile' in text or re.search(r'^error(\[E\d+\])?:', text, re.M) and not res:
        problem = 'compile error under the Kani toolchain (see %s)' % log_path
    elif 'internal compiler error' in text or "thread 'rustc' panicked" in text:
        problem = 'Kani compiler ICE (see %s)' % log_path
    for n in names:
        if n not in res:
            res[n] = dict(status='undecided', failed=[], n_checks=0, n_failed=0, cover_sat=0, cover_total=0,
                          time_s=None, raw='', tool_error=problem or 'no result for harness')
    return dict(results=res, wall_s=wall, problem=problem, log=log_path, cmd=' '.join(cmd))


def counterexample(name, harness_timeout_s=300):
    """Re-run one failing harness with concrete playback; returns (unit test text or None, raw tail)."""
    cmd = ['cargo', 'kani'] + KANI_FLAGS + ['-Z', 'concrete-playback', '--concrete-playback=print', '--exact',
                                             '--output-format=terse', '--harness-timeout',
                                             '%ds' % harness_timeout_s, '--harness', name]
    log_path = os.path.join(BUILD, 'cex.' + name.replace('::', '.') + '.log')
    rc, timed_out, text = _run(cmd, harness_timeout_s + 400, log_path)
    m = re.search(r'Concrete playback unit test for `[^`]*`:\s*```\n(.*?)```', text, re.S)
    return (m.group(1) if m else None), text[-3000:]


def playback(test_text, harness):
    """Compile the recorded concrete-playback test into the harness crate natively (cfg(kani), real crate)
    and run it. Returns (reproduced: bool, output)."""
    mod, fn = harness.rsplit('::', 1)
    body = re.sub(r'concrete_playback_run\(concrete_vals, \w+\)',
                  'concrete_playback_run(concrete_vals, crate::%s::%s)' % (mod, fn), test_text)
    gen = os.path.join(KANI_DIR, 'src', 'playback_gen.rs')
    saved = open(gen).read()
    try:
        open(gen, 'w').write('// generated by ./check --replay\n' + body)
        m = re.search(r'fn (kani_concrete_playback_\w+)', body)
        cmd = ['cargo', 'kani', 'playback', '-Z', 'concrete-playback', '--', m.group(1) if m else 'kani_concrete_playback']
        rc, timed_out, text = _run(cmd, 1500, os.path.join(BUILD, 'playback.log'))
    finally:
        open(gen, 'w').write(saved)
    reproduced = bool(re.search(r'test \S+ \.\.\. FAILED', text))
    return reproduced, text[-4000:]
