"""Kani runner: runs named harnesses of /verif/kani (which depends on /repo/lib by path, so every run
recompiles the current working tree), parses per-harness verdicts and failed checks, obtains a
concrete counterexample for a failing harness, and replays recorded counterexamples natively."""
import json, os, re, signal, subprocess, sys, time, threading
from common import *

KANI_FLAGS = ['-Z', 'stubbing', '-Z', 'function-contracts', '-Z', 'unstable-options', '--no-overflow-checks']


def _env():
    e = dict(os.environ)
    e['RUSTFLAGS'] = '--cfg ' + GUARD
    e['CARGO_NET_OFFLINE'] = 'true'
    e.pop('CARGO_TARGET_DIR', None)
    return e


def _sync_lock():
    # the harness crate resolves against the repository's own lock file
    src = os.path.join(REPO, 'Cargo.lock')
    dst = os.path.join(KANI_DIR, 'Cargo.lock')
    try:
        if open(src).read() != (open(dst).read() if os.path.exists(dst) else ''):
            open(dst, 'w').write(open(src).read())
    except OSError:
        pass


def _kill_tree(proc):
    try:
        os.killpg(os.getpgid(proc.pid), signal.SIGKILL)
    except Exception:
        pass


def _run(cmd, timeout_s, log_path):
    with open(log_path, 'w') as log:
        proc = subprocess.Popen(cmd, cwd=KANI_DIR, env=_env(), stdout=log, stderr=subprocess.STDOUT,
                                start_new_session=True, preexec_fn=_limit if 'playback' not in cmd else None)
        try:
            rc = proc.wait(timeout=timeout_s)
            timed_out = False
        except subprocess.TimeoutExpired:
            _kill_tree(proc)
            rc, timed_out = -9, True
    return rc, timed_out, open(log_path, errors='replace').read()


_RE_CHECKING = re.compile(r'^(?:Thread (\d+): )?Checking harness (\S+?)\.\.\.\s*$')
_RE_THREAD = re.compile(r'^Thread (\d+): ?$')
_RE_COUNTS = re.compile(r'\*\* (\d+) of (\d+) failed(?: \((.*)\))?')
_RE_COVER = re.compile(r'\*\* (\d+) of (\d+) cover properties satisfied')
_RE_FAILED = re.compile(r'^Failed Checks: (.*)$')
_RE_FILE = re.compile(r'^ File: "(.*)", line (\d+), in (.*)$')


def parse_terse(text):
    """-> {harness: dict(status, failed=[{desc,file,line,func}], n_checks, n_failed, cover_sat, cover_total, time_s, raw)}"""
    res, cur_by_thread, cur = {}, {}, None
    lines = text.splitlines()
    active = None   # harness whose block we are in
    for i, ln in enumerate(lines):
        m = _RE_CHECKING.match(ln)
        if m:
            t, h = m.group(1), m.group(2)
            cur_by_thread[t] = h
            res.setdefault(h, dict(status='undecided', failed=[], n_checks=0, n_failed=0, cover_sat=0,
                                   cover_total=0, time_s=None, raw=[]))
            if t is None:
                active = h
            continue
        m = _RE_THREAD.match(ln)
        if m:
            active = cur_by_thread.get(m.group(1))
            continue
        if active is None or active not in res:
            continue
        r = res[active]
        r['raw'].append(ln)
        m = _RE_COUNTS.search(ln)
        if m:
            r['n_failed'], r['n_checks'] = int(m.group(1)), int(m.group(2))
            continue
        m = _RE_COVER.search(ln)
        if m:
            r['cover_sat'], r['cover_total'] = int(m.group(1)), int(m.group(2))
            continue
        m = _RE_FAILED.match(ln)
        if m:
            r['failed'].append(dict(desc=m.group(1).strip().strip('"'), file='', line=0, func=''))
            continue
        m = _RE_FILE.match(ln)
        if m and r['failed'] and not r['failed'][-1]['file']:
            r['failed'][-1].update(file=m.group(1), line=int(m.group(2)), func=m.group(3))
            continue
        if ln.startswith('VERIFICATION:- '):
            v = ln[len('VERIFICATION:- '):].strip()
            if v.startswith('SUCCESSFUL'):
                r['status'] = 'pass'
            elif v.startswith('FAILED'):
                # a FAILED verdict without any failed check listed is a tool problem (timeout, cbmc crash)
                r['status'] = 'fail' if r['failed'] else 'undecided'
            continue
        m = re.match(r'^Verification Time: ([0-9.]+)s', ln)
        if m:
            r['time_s'] = float(m.group(1))
            continue
        if 'CBMC failed' in ln or 'timed out' in ln.lower() or 'out of memory' in ln.lower():
            r['tool_error'] = ln.strip()
    for r in res.values():
        if r.get('tool_error') and r['status'] == 'fail' and not r['failed']:
            r['status'] = 'undecided'
        r['raw'] = '\n'.join(r['raw'][-60:])
    return res


def run_harnesses(names, jobs=8, harness_timeout_s=120, total_timeout_s=1500, tag='kani', extra=None):
    """Run the given fully qualified harness names in one cargo-kani invocation."""
    ensure_dirs()
    _sync_lock()
    cmd = ['cargo', 'kani'] + KANI_FLAGS + ['--exact', '--output-format=terse', '-j', str(max(2, jobs)),
                                             '--harness-timeout', '%ds' % harness_timeout_s]
    for n in names:
        cmd += ['--harness', n]
    if extra:
        cmd += extra
    log_path = os.path.join(BUILD, tag + '.log')
    t0 = time.time()
    rc, timed_out, text = _run(cmd, total_timeout_s, log_path)
    wall = time.time() - t0
    res = parse_terse(text)
    problem = None
    if timed_out:
        problem = 'kani run exceeded total budget %ds' % total_timeout_s
    elif 'error: could not compile' in text or re.search(r'^error(\[E\d+\])?:', text, re.M) and not res:
        problem = 'compile error under the Kani toolchain (see %s)' % log_path
    elif 'internal compiler error' in text or "thread 'rustc' panicked" in text:
        problem = 'Kani compiler ICE (see %s)' % log_path
    for n in names:
        if n not in res:
            res[n] = dict(status='undecided', failed=[], n_checks=0, n_failed=0, cover_sat=0, cover_total=0,
                          time_s=None, raw='', tool_error=problem or 'no result for harness')
    return dict(results=res, wall_s=wall, problem=problem, log=log_path, cmd=' '.join(cmd))


MEM_LIMIT_KB = 24 * 1024 * 1024     # per cbmc process (Kani's own trace mode was seen to use 65 GB)


def _limit():
    import resource
    resource.setrlimit(resource.RLIMIT_AS, (MEM_LIMIT_KB * 1024, MEM_LIMIT_KB * 1024))


def _goto_file(name):
    import glob
    fn = name.rsplit('::', 1)[1]
    cands = glob.glob(os.path.join(KANI_DIR, 'target/kani/*/debug/build/opcua-verif-kani/*/out/*%d%s.out' % (len(fn), fn)))
    cands = [c for c in cands if not c.endswith('.symtab.out') and '.pre_' not in c]
    cands.sort(key=os.path.getmtime)
    return cands[-1] if cands else None


def counterexample(name, desc=None, unwind=None, timeout_s=600):
    """Concrete failing input of a harness: CBMC is run directly on the goto binary Kani built from the current
    tree (same flags as Kani, plus --trace, formula slicing on, memory capped); the values returned by
    kani::any_raw_* along the trace of the failed check become a Kani concrete-playback unit test.
    Returns (unit test text or None, note)."""
    gf = _goto_file(name)
    if not gf:
        return None, 'goto binary of %s not found' % name
    base = ['cbmc', '--no-malloc-may-fail', '--no-undefined-shift-check', '--no-signed-overflow-check',
            '--no-div-by-zero-check', '--no-self-loops-to-assumptions', '--no-pointer-primitive-check',
            '--object-bits', '16', '--sat-solver', 'cadical', gf, '--trace', '--json-ui']
    if unwind:
        base += ['--unwind', str(unwind)]
    data, err = None, ''
    # without formula slicing every kani::any() value is in the trace (what concrete playback needs); if that is
    # too expensive fall back to the sliced formula (values irrelevant to the failure are then missing and the
    # playback may not line up — the replay file says so)
    for extra, t in (([], min(timeout_s, 120)), (['--slice-formula'], min(timeout_s, 150))):
        try:
            p = subprocess.run(base + extra, capture_output=True, text=True, timeout=t, preexec_fn=_limit)
            data = json.loads(p.stdout)
            sliced = bool(extra)
            break
        except Exception as e:
            err = str(e)[:200]
    if data is None:
        return None, 'cbmc trace run failed: %s' % err
    best = None
    for item in data:
        for r in item.get('result', []) if isinstance(item, dict) else []:
            if r.get('status') != 'FAILURE' or 'trace' not in r:
                continue
            d = r.get('description', '')
            if '.cover.' in r.get('property', '') or 'reachability_check' in r.get('property', ''):
                continue
            if desc and desc not in d:
                continue
            best = r
            break
        if best:
            break
    if not best:
        return None, 'no trace for the failed check in cbmc output'
    vals = []
    for st in best['trace']:
        if st.get('stepType') != 'assignment':
            continue
        fn = st.get('sourceLocation', {}).get('function', '')
        if not fn.startswith('kani::any_raw_'):
            continue
        if not str(st.get('lhs', '')).startswith('goto_symex$$return_value'):
            continue
        v = st.get('value', {})
        vals.append(_bytes_of(v))
    fnname = name.rsplit('::', 1)[1]
    lines = ['/// Test generated for harness `%s` from a CBMC trace' % name, '///',
             '/// Check: %s' % best.get('description', '').replace('\n', ' '), '#[test]',
             'fn kani_concrete_playback_%s_%s() {' % (fnname, sha16(json.dumps(vals))[:10]),
             '    let concrete_vals: Vec<Vec<u8>> = vec![']
    for b in vals:
        lines.append('        vec![%s],' % ', '.join(str(x) for x in b))
    lines += ['    ];', '    kani::concrete_playback_run(concrete_vals, %s);' % fnname, '}']
    return '\n'.join(lines) + '\n', ('values read from the %strace of: ' % ('sliced ' if sliced else '')) + best.get('description', '')


def _bytes_of(v):
    """little-endian bytes of a CBMC trace value (scalars, arrays and structs of scalars)"""
    if 'binary' in v and 'width' in v:
        n = int(v['width']) // 8
        x = int(v['binary'], 2)
        return [(x >> (8 * i)) & 0xff for i in range(max(n, 1))]
    out = []
    if 'elements' in v:
        for e in v['elements']:
            out += _bytes_of(e.get('value', e))
    elif 'members' in v:
        for e in v['members']:
            out += _bytes_of(e.get('value', e))
    return out


def playback(test_text, harness):
    """Compile the recorded concrete-playback test into the harness crate natively (cfg(kani), real crate)
    and run it. Returns (reproduced: bool, output)."""
    mod, fn = harness.rsplit('::', 1)
    body = re.sub(r'concrete_playback_run\(concrete_vals, \w+\)',
                  'concrete_playback_run(concrete_vals, crate::%s::%s)' % (mod, fn), test_text)
    gen = os.path.join(KANI_DIR, 'src', 'playback_gen.rs')
    saved = open(gen).read()
    try:
        open(gen, 'w').write('// generated by ./check --replay\n' + body)
        m = re.search(r'fn (kani_concrete_playback_\w+)', body)
        cmd = ['cargo', 'kani', 'playback', '-Z', 'concrete-playback', '--', m.group(1) if m else 'kani_concrete_playback']
        rc, timed_out, text = _run(cmd, 1500, os.path.join(BUILD, 'playback.log'))
    finally:
        open(gen, 'w').write(saved)
    reproduced = bool(re.search(r'test \S+ \.\.\. FAILED', text))
    return reproduced, text[-4000:]
