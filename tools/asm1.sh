#!/bin/bash
# assemble one unit into build/<unit>.rs and run verus on it (developer helper)
cd /verif && python3 - "$1" <<'PY'
import sys; sys.path.insert(0,'tools'); sys.path.insert(0,'units')
import extract, importlib
u=sys.argv[1]
m=importlib.import_module(u)
U=m.build(extract.Manifest())
open('/verif/build/%s.rs'%u,'w').write(U['asm'].text())
PY
cd /verif/build && verus $1.rs --multiple-errors 10 2>&1 | grep -v "^warning: use of deprecated" | head -${2:-80}
