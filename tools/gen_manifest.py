#!/usr/bin/env python3
"""Regenerates /verif/MANIFEST.json from props.py (claimed checks) and na.py (not applicable)."""
import json, os, sys
HERE = os.path.dirname(os.path.dirname(os.path.abspath(__file__)))
sys.path.insert(0, HERE)
sys.path.insert(0, os.path.join(HERE, 'tools'))
import props, na

ids = [json.loads(l)['id'] for l in open(os.path.join(HERE, 'properties.jsonl'))]
checks = []
for pid in ids:
    if pid not in props.PROPS:
        continue
    P = props.PROPS[pid]
    checks.append({
        'property_id': pid,
        'quick_cmd': './check %s --tier quick' % pid,
        'thorough_cmd': './check %s --tier thorough' % pid,
        'evidence_file': 'evidence/%s.json' % pid,
        'replay_cmd_template': './check %s --replay {path}' % pid,
        'engine': ' + '.join((['verus-extract'] if P.get('verus') else []) + (['kani-real-crate'] if P.get('kani') else [])),
        'level_claimed': {'category': P['level'], 'text': P['level_text'], 'design_ref': P.get('design_ref', 'DESIGN.md section 5 / ' + pid)},
        'level_note': P['level_note'],
        'technique': P['technique'],
    })
napp = [{'property_id': pid, 'reason': na.NA[pid]} for pid in ids if pid not in props.PROPS]
missing = [pid for pid in ids if pid not in props.PROPS and pid not in na.NA]
assert not missing, missing
serves_v = [p for p in ids if p in props.PROPS and props.PROPS[p].get('verus')]
serves_k = [p for p in ids if p in props.PROPS and props.PROPS[p].get('kani')]
m = {
    'version': 1,
    'setup_cmd': './setup.sh',
    'hooks': {
        'guard': 'locka99_opcua_verif',
        'enable': "RUSTFLAGS='--cfg locka99_opcua_verif' (set by tools/krun.py when it builds the Kani harness crate, which depends on /repo/lib by path); in-place contract attributes are additionally behind cfg(kani)",
        'baseline_off_cmd': 'cd /repo && cargo nextest run --workspace --no-fail-fast --tool-config-file pb:/w/lib/nextest.toml --profile pb --test-threads 8 --offline',
        'source_commits': props.HOOK_COMMITS,
        'add_only': True,
    },
    'engines': [
        {'name': 'verus-extract', 'path': 'tools/vrun.py', 'serves_properties': serves_v,
         'kind_free_text': 'Verus 0.2026.09.13 on functions extracted mechanically from /repo on every run (tools/extract.py: fixed rewrite table D1-D8, contracts spliced from units/*.py)'},
        {'name': 'kani-real-crate', 'path': 'tools/krun.py', 'serves_properties': serves_k,
         'kind_free_text': 'Kani 0.68 / CBMC 6.11 on the real compiled crate: harness crate /verif/kani depends on /repo/lib by path; contracts as harness pre/postconditions or in-place cfg_attr(kani) attributes; loop-free full-domain harnesses are proofs, anything with a size/unwind bound is labelled bounded'},
    ],
    'checks': checks,
    'notes': 'exit 0 = all obligations discharged (KNOWN-FINDING lines for listed findings); exit 1 = VIOLATION with named obligation; exit 2 = UNDECIDED (lost anchor / tool limit), never an alarm. known_findings.txt lists findings and fixed defects.',
    'not_applicable': napp,
}
json.dump(m, open(os.path.join(HERE, 'MANIFEST.json'), 'w'), indent=1)
print('MANIFEST.json: %d checks, %d not applicable' % (len(checks), len(napp)))
