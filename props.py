"""Registry: which units / harnesses decide which property."""

GLOBAL_ASSUMPTIONS = [
    'rustc MIR -> Kani goto translation, CBMC 6.11 / CaDiCaL, Verus 0.2026.09.13 / Z3 are trusted',
    'extractor (tools/extract.py): brace matcher and the fixed rewrite table D1-D8/S1 are trusted, exercised by the seeded-change self test',
    'logging macros have no effect on control flow or state (D1 deletes them; refused when an argument is not a pure accessor)',
    'allocation failure is not modelled',
]
TRUSTED_BASE = ['Verus 0.2026.09.13 + Z3', 'Kani 0.68.0 + CBMC 6.11.0 + CaDiCaL', 'rustc (both pinned toolchains)',
                'tools/extract.py rewrite table', 'vstd specifications of std collections']


def H(name, oblig, kind='proof', bound='', tier='quick', witness_for=None, functions=()):
    return dict(name=name, oblig=oblig, kind=kind, bound=bound, tier=tier, witness_for=witness_for,
                functions=list(functions))


HOOK_COMMITS = ['3254cbd2', '27e1b456', '140569c3', '6e63a402']

PROPS = {
    'C06': dict(
        title='Implicit Variant conversion never changes a numeric value',
        level='proof',
        level_text='Complete proof by Kani/CBMC: one loop-free harness per numeric source type with the value (all bit patterns, incl. NaN/inf for floats) and the numeric target type symbolic; asserts on the real Variant::convert / Variant::cast: result has the target type or is empty, denotes the same number (integers compared in i128, float targets equal to the IEEE nearest), no result when out of range, widening conversions succeed, casts from floating point return a nearest integer and no result exactly when the rounded value is out of range or the value is not finite',
        level_note='Trusted: CBMC IEEE-754 semantics for `as` casts and floor/ceil. The regex/uuid/chrono parsers and format! reachable from the string arms of convert/cast are stubbed (Kani cannot compile regex_automata); they are not on a numeric path. String -> number conversions (from_str) are not under contract.',
        technique='Kani function-level contract harnesses over kani::any inputs on the real crate, loop-free => unbounded',
        kani=[
            H('c06::c06_convert_i8', 'C06.convert.i8', functions=['lib/src/types/variant.rs:Variant::convert']),
            H('c06::c06_cast_i8', 'C06.cast.i8', functions=['lib/src/types/variant.rs:Variant::cast']),
            H('c06::c06_convert_u8', 'C06.convert.u8', functions=['lib/src/types/variant.rs:Variant::convert']),
            H('c06::c06_cast_u8', 'C06.cast.u8', functions=['lib/src/types/variant.rs:Variant::cast']),
            H('c06::c06_convert_i16', 'C06.convert.i16', functions=['lib/src/types/variant.rs:Variant::convert']),
            H('c06::c06_cast_i16', 'C06.cast.i16', functions=['lib/src/types/variant.rs:Variant::cast']),
            H('c06::c06_convert_u16', 'C06.convert.u16', functions=['lib/src/types/variant.rs:Variant::convert']),
            H('c06::c06_cast_u16', 'C06.cast.u16', functions=['lib/src/types/variant.rs:Variant::cast']),
            H('c06::c06_convert_i32', 'C06.convert.i32', functions=['lib/src/types/variant.rs:Variant::convert']),
            H('c06::c06_cast_i32', 'C06.cast.i32', functions=['lib/src/types/variant.rs:Variant::cast']),
            H('c06::c06_convert_u32', 'C06.convert.u32', functions=['lib/src/types/variant.rs:Variant::convert']),
            H('c06::c06_cast_u32', 'C06.cast.u32', functions=['lib/src/types/variant.rs:Variant::cast']),
            H('c06::c06_convert_i64', 'C06.convert.i64', functions=['lib/src/types/variant.rs:Variant::convert']),
            H('c06::c06_cast_i64', 'C06.cast.i64', functions=['lib/src/types/variant.rs:Variant::cast']),
            H('c06::c06_convert_u64', 'C06.convert.u64', functions=['lib/src/types/variant.rs:Variant::convert']),
            H('c06::c06_cast_u64', 'C06.cast.u64', functions=['lib/src/types/variant.rs:Variant::cast']),
            H('c06::c06_convert_bool', 'C06.convert.bool', functions=['lib/src/types/variant.rs:Variant::convert']),
            H('c06::c06_convert_float', 'C06.convert.float', functions=['lib/src/types/variant.rs:Variant::convert']),
            H('c06::c06_convert_double', 'C06.convert.double', functions=['lib/src/types/variant.rs:Variant::convert']),
            H('c06::c06_cast_float', 'C06.cast.float', functions=['lib/src/types/variant.rs:Variant::cast']),
            H('c06::c06_cast_double', 'C06.cast.double', functions=['lib/src/types/variant.rs:Variant::cast']),
        ],
        kani_budget={'quick': 300, 'thorough': 900},
        explanation='loop-free full-domain harnesses: complete proofs per source type',
    ),
    'C07': dict(
        title='Any message survives chunking and channel security unchanged',
        level='proof',
        level_text='Partial. Deductive proof (Verus, all sizes) that the real padding/signature/body-size functions equal spec functions written from Part 6 (strongest postconditions) and, over those, that what is encrypted is a whole number of cipher blocks and that a chunk filled to the computed body size never exceeds the negotiated size (outside the listed finding).',
        level_note='Covers symmetric (MSG/CLO) chunks; OPN/RSA sizes and the crypto round trip (OpenSSL) are assumed. Environment contracts standing for repository code (header byte_len, make_security_header) are re-checked by Kani on the real functions. Known finding: chunk overshoot for certain residues of the chunk size.',
        technique='Verus strongest-postcondition contracts on mechanically extracted real functions + arithmetic lemmas',
        verus=['c07_sizes'],
        kani=[
            H('c07::c07_padding_twin', 'C07.twin', functions=['lib/src/core/comms/secure_channel.rs:SecureChannel::padding_size (compiled)', 'lib/src/core/comms/message_chunk.rs:MessageChunk::body_size_from_message_size (compiled)']),
            H('c07::c07_env_headers', 'C07.env', functions=['lib/src/core/comms/security_header.rs:SequenceHeader::byte_len', 'lib/src/core/comms/security_header.rs:SecurityHeader::byte_len', 'lib/src/core/comms/secure_channel.rs:SecureChannel::make_security_header']),
            H('c07::c07_kf_overshoot_witness', 'C07.kf.overshoot', kind='bounded', bound='one concrete input (witness of a known finding)', witness_for='C07.chunk_overshoot'),
        ],
        explanation='size/structure half of C07 for symmetric chunks',
    ),
    'C13': dict(
        title='Channel keys are derived per the specification and agree on both ends',
        level='proof',
        level_text='Deductive proof (Verus, all nonce lengths, all policies) modulo HMAC: the real hash::p_sha loop computes RFC 5246 P_hash (loop invariant + termination), SecurityPolicy::prf / make_secure_channel_keys slice it at the Part 6 offsets with the Part 7 key lengths written independently in the spec, SecureChannel::derive_keys assigns (secret, seed) per Part 6 table 33, and two channels with swapped nonces derive matching local/remote key triples (lemma)',
        level_note='HMAC is an uninterpreted function (OpenSSL assumed deterministic with fixed output length); collision resistance ("different nonces give different keys") is not claimed. Axiom added: iterating &Vec<T> yields its elements (no vstd spec for Extend<&T>). Ghost code is spliced at anchors; executable text is verbatim.',
        technique='Verus contracts + loop invariant + inductive lemmas on mechanically extracted real functions',
        verus=['c13_keys'],
        kani=[],
        explanation='p_sha, prf, make_secure_channel_keys, derive_keys under contract against RFC 5246 / Part 6 spec functions',
    ),
    'C22': dict(
        title='Keep-alives keep flowing and idle subscriptions expire on time',
        level='proof',
        level_text='Deductive proof (Verus) of a step contract on the verbatim text of Subscription::update_state for all states, counters and inputs, plus inductive lemmas lifting the step contract to the two history statements (keep-alive within max_keep_alive+1 intervals and no expiry while requests are queued; expiry after exactly lifetime-count intervals without requests)',
        level_note='Trusted: extraction rewrite table (logging deleted, derives replaced, struct sliced to the 7 scalar fields used); assumed at call sites: Subscription::tick calls update_state once per elapsed interval and never with ReceivePublishRequest+timer expired; handle_state_result maps actions to messages; inv is the C23 postcondition. Known finding: max_keep_alive==1 && max_lifetime==3.',
        technique='Verus contracts (requires/ensures) spliced onto mechanically extracted real functions + inductive proof fns; Kani twin on the real crate for counterexamples',
        verus=['c22_state_table'],
        kani=[
            H('c22::c22_update_state_twin', 'C22.twin', functions=['lib/src/server/subscriptions/subscription.rs:Subscription::update_state (compiled, via verif_update_state)']),
            H('c22::c22_kf_ka1_lt3_witness', 'C22.kf.ka1_lt3', kind='bounded', bound='one concrete 4-step history (witness of a known finding, not a proof)', witness_for='C22.ka1_lt3'),
        ],
        explanation='Verus proves the step contract of the real Subscription::update_state for all states/inputs and the '
                    'two history lemmas by induction over that contract',
    ),
    'C23': dict(
        title='Revised subscription and monitored item parameters respect the limits',
        level='proof',
        level_text='Complete proof by Kani/CBMC: loop-free harnesses call the real revise_subscription_values / sanitize_sampling_interval / sanitize_queue_size with every requested value (all f64 bit patterns incl. NaN/inf/-0, all u32/usize) and every limit configuration Server::new can establish, and assert the five range statements of the property plus "valid requests are kept"',
        level_note='Assumed: configured minimum intervals are finite and >= 0 (ServerConfig does not validate them); default/max keep-alive and max lifetime satisfy 1 <= default <= max, max_lifetime == 3*max as set in server.rs:174-176. ServerState is built by the cfg hook ServerState::verif_minimal (no clock/PKI/locks).',
        technique='Kani function-level contract harnesses over kani::any inputs on the real crate, loop-free => unbounded',
        kani=[
            H('c23::c23_revise_subscription_values', 'C23.revise', functions=['lib/src/server/services/subscription.rs:SubscriptionService::revise_subscription_values']),
            H('c23::c23_sanitize_sampling_interval', 'C23.sampling', functions=['lib/src/server/subscriptions/monitored_item.rs:MonitoredItem::sanitize_sampling_interval']),
            H('c23::c23_sanitize_queue_size', 'C23.queue', functions=['lib/src/server/subscriptions/monitored_item.rs:MonitoredItem::sanitize_queue_size']),
        ],
        explanation='loop-free full-domain harnesses: complete proofs',
    ),
    'C37': dict(
        title='Reconnect back-off follows its policy and never overflows',
        level='proof',
        level_text='Complete proof by Kani/CBMC: loop-free harnesses over the full domain of (max delay, limit, current delay, count) check the step contract of the real ExponentialBackoff::next (no panic, None iff limit used up, yields current, next = min(max, 2*current) over the integers, count+1) and the constructor contract; the sequence statement follows by induction over the step contract',
        level_note='Trusted: Kani translation of std::time::Duration arithmetic (real std code, not a model); the induction from the step contract to the whole sequence is a paper argument (3 lines) recorded in DESIGN.md',
        technique='Kani function-level contract harness (pre/postcondition assertions over kani::any inputs), loop-free => unbounded',
        kani=[
            H('c37::c37_step_contract', 'C37.step', functions=['lib/src/client/retry.rs:<ExponentialBackoff as Iterator>::next']),
            H('c37::c37_new_contract', 'C37.new', functions=['lib/src/client/retry.rs:ExponentialBackoff::new']),
        ],
        explanation='loop-free Kani harnesses over the full domain of (max delay, limit, current delay, count): complete proofs of the step contract',
    ),
}
