//! C07 — Kani side: (1) twin of the Verus size unit on the real compiled functions, (2) the environment
//! contracts the Verus prelude assumes about repository code, (3) the witness of the listed overshoot finding.
use opcua::core::comms::message_chunk::{MessageChunk, MessageChunkType};
use opcua::core::comms::secure_channel::{Role, SecureChannel};
use opcua::core::comms::security_header::{SecurityHeader, SequenceHeader, SymmetricSecurityHeader};
use opcua::core::comms::tcp_types::MIN_CHUNK_SIZE;
use opcua::crypto::SecurityPolicy;
use opcua::types::{BinaryEncoder, DecodingOptions, MessageSecurityMode};

pub fn any_policy() -> SecurityPolicy {
    let k: u8 = kani::any();
    kani::assume(k < 6);
    match k {
        0 => SecurityPolicy::None,
        1 => SecurityPolicy::Basic128Rsa15,
        2 => SecurityPolicy::Basic256,
        3 => SecurityPolicy::Basic256Sha256,
        4 => SecurityPolicy::Aes128Sha256RsaOaep,
        _ => SecurityPolicy::Aes256Sha256RsaPss,
    }
}
pub fn any_mode() -> MessageSecurityMode {
    let k: u8 = kani::any();
    kani::assume(k < 3);
    match k {
        0 => MessageSecurityMode::None,
        1 => MessageSecurityMode::Sign,
        _ => MessageSecurityMode::SignAndEncrypt,
    }
}
pub fn channel(policy: SecurityPolicy, mode: MessageSecurityMode) -> SecureChannel {
    let mut c = SecureChannel::verif_new(Role::Server, DecodingOptions::minimal());
    c.set_security_policy(policy);
    c.set_security_mode(mode);
    c
}
fn sym_sig(p: SecurityPolicy) -> usize {
    match p {
        SecurityPolicy::None => 0,
        SecurityPolicy::Basic128Rsa15 | SecurityPolicy::Basic256 => 20,
        _ => 32,
    }
}
fn spec_pad(sec: bool, body: usize, sig: usize) -> usize {
    if !sec { 0 } else {
        let e = 8 + body + sig + 1;
        if e % 16 != 0 { 1 + (16 - e % 16) } else { 1 }
    }
}

#[kani::proof]
#[kani::unwind(18)]     // body_size_from_message_size steps down by at most one cipher block (16 bytes)
pub fn c07_padding_twin() {
    let policy = any_policy();
    let mode = any_mode();
    let c = channel(policy, mode);
    // Part 6: symmetric chunks are padded only when they are encrypted
    let secured = policy != SecurityPolicy::None && mode == MessageSecurityMode::SignAndEncrypt;
    let hdr = SecurityHeader::Symmetric(SymmetricSecurityHeader { token_id: kani::any() });
    let body: usize = kani::any();
    kani::assume(body <= 0x1000_0000);
    let sig = c.signature_size(&hdr);
    assert!(sig == sym_sig(policy), "C07.twin.signature_size_is_policy_mac_size");
    let signing = policy != SecurityPolicy::None && mode != MessageSecurityMode::None;
    let (pad, min_pad) = c.padding_size(&hdr, body, sig);
    assert!(pad == spec_pad(secured, body, sig), "C07.twin.padding_is_part6_padding");
    assert!(min_pad == if secured { 1 } else { 0 }, "C07.twin.padding_size_field_width");
    if secured {
        assert!((8 + body + pad + sig) % 16 == 0, "C07.twin.block_multiple");
        assert!(pad >= 1 && pad <= 16, "C07.twin.padding_minimal");
    }
    let m: usize = kani::any();
    kani::assume(m <= 0x1000_0000);
    let r = MessageChunk::body_size_from_message_size(MessageChunkType::Message, &c, m);
    if m < MIN_CHUNK_SIZE {
        assert!(r.is_err(), "C07.twin.body_size_rejects_below_min_chunk");
    } else {
        // the largest body that fits together with its own padding
        let b0 = m - (12 + 4 + 8 + sig);
        let want = if secured { b0 - ((8 + b0 + sig) % 16) - 1 } else { b0 };
        assert!(r == Ok(want), "C07.twin.body_size_is_spec_body");
        // never exceed the negotiated chunk size
        if body <= want {
            assert!(12 + 4 + 8 + body + pad + sig <= m, "C07.twin.chunk_fits_negotiated_size");
        }
    }
    kani::cover!(secured && m >= MIN_CHUNK_SIZE && body > 8000, "C07.cover.secured_large");
    kani::cover!(!secured && m >= MIN_CHUNK_SIZE, "C07.cover.unsecured");
    kani::cover!(signing && !secured && m >= MIN_CHUNK_SIZE, "C07.cover.signed_only");
    kani::cover!(m < MIN_CHUNK_SIZE, "C07.cover.too_small");
}

/// Environment contracts assumed by the Verus unit c07_sizes about repository code.
#[kani::proof]
pub fn c07_env_headers() {
    let sh = SequenceHeader { sequence_number: kani::any(), request_id: kani::any() };
    assert!(sh.byte_len() == 8, "C07.env.sequence_header_is_8_bytes");
    let hdr = SecurityHeader::Symmetric(SymmetricSecurityHeader { token_id: kani::any() });
    assert!(hdr.byte_len() == 4, "C07.env.symmetric_header_is_4_bytes");
    let c = channel(any_policy(), any_mode());
    let k: u8 = kani::any();
    let t = if k == 0 { MessageChunkType::Message } else { MessageChunkType::CloseSecureChannel };
    let h = c.make_security_header(t);
    assert!(matches!(h, SecurityHeader::Symmetric(_)), "C07.env.non_opn_header_is_symmetric");
}

/// Regression for the repaired finding C07.chunk_overshoot (fix 90f43ecc): the concrete case that overshot.
#[kani::proof]
#[kani::unwind(18)]
pub fn c07_full_chunk_fits_65535() {
    let c = channel(SecurityPolicy::Basic256Sha256, MessageSecurityMode::SignAndEncrypt);
    let m = 65535usize;
    let hdr = SecurityHeader::Symmetric(SymmetricSecurityHeader { token_id: 1 });
    let body = MessageChunk::body_size_from_message_size(MessageChunkType::Message, &c, m).unwrap();
    let sig = c.signature_size(&hdr);
    let (pad, _) = c.padding_size(&hdr, body, sig);
    assert!(12 + 4 + 8 + body + pad + sig <= m, "C07.regress.full_chunk_fits_negotiated_size");
}
