//! C32 (range access part) — Kani on the real `UAString::substring` (str slicing is outside the Verus dialect).
//! BOUNDED: three concrete strings covering 1-, 2-, 3- and 4-byte characters; the byte range is symbolic.
use opcua::types::UAString;

fn check(s: &str) {
    let u = UAString::from(s);
    let min: usize = kani::any();
    let max: usize = kani::any();
    kani::assume(min <= 8 && max <= 8 && min <= max);
    let r = u.substring(min, max); // must not panic for any byte range
    let len = s.len();
    let hi = if max >= len { len.wrapping_sub(1) } else { max };
    let on_boundaries = min < len && s.is_char_boundary(min) && s.is_char_boundary(hi + 1);
    match r {
        Ok(sub) => {
            assert!(on_boundaries, "C32.substring.ok_only_for_ranges_on_character_boundaries");
            let bytes = sub.as_ref().as_bytes();
            assert!(bytes.len() == hi + 1 - min, "C32.substring.length");
            let mut i = 0;
            while i < bytes.len() {
                assert!(bytes[i] == s.as_bytes()[min + i], "C32.substring.returns_the_selected_bytes");
                i += 1;
            }
        }
        Err(()) => assert!(!on_boundaries, "C32.substring.err_only_when_no_such_substring"),
    }
}

#[kani::proof]
#[kani::unwind(10)]
pub fn c32_substring_2byte() { check("a\u{e9}b"); }        // a, é (2 bytes), b
#[kani::proof]
#[kani::unwind(10)]
pub fn c32_substring_3byte() { check("\u{20ac}x"); }        // € (3 bytes), x
#[kani::proof]
#[kani::unwind(10)]
pub fn c32_substring_4byte() { check("\u{1f600}"); }        // 4-byte character
#[kani::proof]
pub fn c32_substring_null() {
    let r = UAString::null().substring(kani::any(), kani::any());
    assert!(r.is_err(), "C32.substring.null_has_no_substring");
}

// Variant::range_of on a 3-element Int32 array with a symbolic range exceeded 400 s under Kani: not under contract.
