//! C03 Configured decoding limits are enforced exactly.
//! A probing reader serves a fixed prefix (the length field / the chunk header) and refuses every later read,
//! counting the attempts: "rejected before the body is read" is `reads_after_prefix == 0`, "accepted by the limit
//! check" is `reads_after_prefix >= 1`. The decoders' body loops are cut by the reader's error, so the harnesses
//! are loop-free for every declared length and every configured limit (both fully symbolic): complete proofs.
use opcua::core::comms::message_chunk::MessageChunk;
use opcua::types::status_code::StatusCode;
use opcua::types::{read_array, BinaryEncoder, ByteString, DecodingOptions, UAString, Variant};
use std::io::Read;

pub struct Probe<const N: usize> {
    head: [u8; N],
    pos: usize,
    reads_after_prefix: usize,
}
impl<const N: usize> Probe<N> {
    fn new(head: [u8; N]) -> Self { Probe { head, pos: 0, reads_after_prefix: 0 } }
}
impl<const N: usize> Read for Probe<N> {
    fn read(&mut self, buf: &mut [u8]) -> std::io::Result<usize> {
        if self.pos < N && buf.len() <= N - self.pos {
            let n = buf.len();
            let mut i = 0;
            while i < n { buf[i] = self.head[self.pos + i]; i += 1; }
            self.pos += n;
            Ok(n)
        } else {
            self.reads_after_prefix += 1;
            Err(std::io::Error::from(std::io::ErrorKind::UnexpectedEof))
        }
    }
}
fn options(max_string: usize, max_bytes: usize, max_array: usize, max_message: usize) -> DecodingOptions {
    let mut o = DecodingOptions::minimal();
    o.max_string_length = max_string;
    o.max_byte_string_length = max_bytes;
    o.max_array_length = max_array;
    o.max_message_size = max_message;
    o
}

#[kani::proof]
#[kani::unwind(6)]
pub fn c03_string_limit() {
    let len: i32 = kani::any();
    let max: usize = kani::any();
    let mut p = Probe::new(len.to_le_bytes());
    let r = UAString::decode(&mut p, &options(max, 8192, 8192, 0));
    if len == -1 {
        assert!(matches!(&r, Ok(s) if s.is_null()) && p.reads_after_prefix == 0, "C03.string.minus_one_is_null");
    } else if len < -1 {
        assert!(r.is_err() && p.reads_after_prefix == 0, "C03.string.negative_length_rejected");
    } else if len as usize > max {
        assert!(r.is_err() && p.reads_after_prefix == 0, "C03.string.over_limit_rejected_before_body_is_read");
    } else if len == 0 {
        assert!(matches!(&r, Ok(s) if !s.is_null() && s.as_ref().is_empty()), "C03.string.empty_accepted");
    } else {
        assert!(p.reads_after_prefix >= 1, "C03.string.within_limit_not_rejected_by_limit");
    }
    kani::cover!(len > 0 && len as usize == max, "C03.cover.string_at_limit");
    kani::cover!(len > 0 && len as usize - 1 == max, "C03.cover.string_one_over");
    kani::cover!(max == 0 && len == 0, "C03.cover.string_zero");
}

#[kani::proof]
#[kani::unwind(6)]
pub fn c03_byte_string_limit() {
    let len: i32 = kani::any();
    let max: usize = kani::any();
    let mut p = Probe::new(len.to_le_bytes());
    let r = ByteString::decode(&mut p, &options(8192, max, 8192, 0));
    if len == -1 {
        assert!(matches!(&r, Ok(s) if s.is_null()) && p.reads_after_prefix == 0, "C03.bytes.minus_one_is_null");
    } else if len < -1 {
        assert!(r.is_err() && p.reads_after_prefix == 0, "C03.bytes.negative_length_rejected");
    } else if len as usize > max {
        assert!(r.is_err() && p.reads_after_prefix == 0, "C03.bytes.over_limit_rejected_before_body_is_read");
    } else if len == 0 {
        assert!(matches!(&r, Ok(s) if !s.is_null()), "C03.bytes.empty_accepted");
    } else {
        assert!(p.reads_after_prefix >= 1, "C03.bytes.within_limit_not_rejected_by_limit");
    }
    kani::cover!(len > 0 && len as usize == max, "C03.cover.bytes_at_limit");
    kani::cover!(len > 0 && len as usize - 1 == max, "C03.cover.bytes_one_over");
}

#[kani::proof]
#[kani::unwind(6)]
pub fn c03_array_limit() {
    let len: i32 = kani::any();
    let max: usize = kani::any();
    let mut p = Probe::new(len.to_le_bytes());
    let r: Result<Option<Vec<i32>>, StatusCode> = read_array(&mut p, &options(8192, 8192, max, 0));
    if len == -1 {
        assert!(matches!(&r, Ok(None)) && p.reads_after_prefix == 0, "C03.array.minus_one_is_null");
    } else if len < -1 {
        assert!(r.is_err() && p.reads_after_prefix == 0, "C03.array.negative_length_rejected");
    } else if len as usize > max {
        assert!(r.is_err() && p.reads_after_prefix == 0, "C03.array.over_limit_rejected_before_elements_are_read");
    } else if len == 0 {
        assert!(matches!(&r, Ok(Some(v)) if v.is_empty()), "C03.array.empty_accepted");
    } else {
        assert!(p.reads_after_prefix >= 1, "C03.array.within_limit_not_rejected_by_limit");
    }
    kani::cover!(len > 0 && len as usize == max, "C03.cover.array_at_limit");
    kani::cover!(len > 0 && len as usize - 1 == max, "C03.cover.array_one_over");
    std::mem::forget(r);
}

/// a string nested in a Variant obeys the same limit (leading encoding byte 12 = String)
#[kani::proof]
#[kani::unwind(6)]
pub fn c03_string_in_variant_limit() {
    let len: i32 = kani::any();
    let max: usize = kani::any();
    let l = len.to_le_bytes();
    let mut p = Probe::new([12u8, l[0], l[1], l[2], l[3]]);
    let r = Variant::decode(&mut p, &options(max, 8192, 8192, 0));
    if len >= 0 && len as usize > max {
        assert!(r.is_err() && p.reads_after_prefix == 0, "C03.nested.string_in_variant_over_limit_rejected");
    } else if len > 0 {
        assert!(p.reads_after_prefix >= 1, "C03.nested.string_in_variant_within_limit_not_rejected");
    }
    kani::cover!(len > 0 && len as usize - 1 == max, "C03.cover.nested_one_over");
    std::mem::forget(r);
}

/// an array of Int32 in a Variant (encoding byte 0x80 | 6) obeys max_array_length
#[kani::proof]
#[kani::unwind(6)]
pub fn c03_array_in_variant_limit() {
    let len: i32 = kani::any();
    let max: usize = kani::any();
    let l = len.to_le_bytes();
    let mut p = Probe::new([0x86u8, l[0], l[1], l[2], l[3]]);
    let r = Variant::decode(&mut p, &options(8192, 8192, max, 0));
    if len > 0 && len as usize > max {
        assert!(r.is_err() && p.reads_after_prefix == 0, "C03.nested.array_in_variant_over_limit_rejected");
    } else if len > 0 {
        assert!(p.reads_after_prefix >= 1, "C03.nested.array_in_variant_within_limit_not_rejected");
    }
    kani::cover!(len > 0 && len as usize - 1 == max, "C03.cover.nested_array_one_over");
    std::mem::forget(r);
}

// MessageChunk::decode (chunk size vs max_message_size): two harness shapes (all sizes / sizes 13..=64) both exceeded
// 300 s — the accepting branch allocates the declared size and re-encodes the header through a Cursor. The
// "rejected instead of accumulated" half of the statement is proved at the framing layer (C10, Verus, TcpCodec::decode).
