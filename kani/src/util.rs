//! shared helpers for the harnesses
use std::collections::hash_map::RandomState;

/// `HashMap::new()` seeds its hasher through the `getrandom` syscall, which Kani does not support;
/// harnesses that build a map stub `RandomState::new` with fixed keys.
pub fn fixed_random_state() -> RandomState {
    unsafe { std::mem::transmute::<(u64, u64), RandomState>((1, 2)) }
}
