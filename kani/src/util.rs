//! shared helpers for the harnesses
use std::collections::hash_map::RandomState;

/// `HashMap::new()` seeds its hasher through the `getrandom` syscall, which Kani does not support;
/// harnesses that build a map stub `RandomState::new` with fixed keys.
pub fn fixed_random_state() -> RandomState {
    unsafe { std::mem::transmute::<(u64, u64), RandomState>((1, 2)) }
}

// ---- stubs cutting the regex / uuid / chrono parsers (Kani cannot compile regex_automata: compiler ICE).
// None of them is on a numeric path; they return an error so the stubbed paths yield `Variant::Empty`.
use opcua::types::{status_code::StatusCode, DateTime, ExpandedNodeId, Guid, NodeId};
pub fn stub_node_id_from_str(_s: &str) -> Result<NodeId, StatusCode> {
    Err(StatusCode::BadNodeIdInvalid)
}
pub fn stub_expanded_node_id_from_str(_s: &str) -> Result<ExpandedNodeId, StatusCode> {
    Err(StatusCode::BadNodeIdInvalid)
}
pub fn stub_guid_from_str(_s: &str) -> Result<Guid, ()> {
    Err(())
}
pub fn stub_date_time_from_str(_s: &str) -> Result<DateTime, ()> {
    Err(())
}
/// `format!` on paths irrelevant to the contract dominates CBMC time; stubbed to an empty string.
pub fn stub_format(_args: std::fmt::Arguments<'_>) -> String {
    String::new()
}
