//! shared helpers
