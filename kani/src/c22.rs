//! C22 — Kani twin of the Verus unit `c22_state_table`: the same step contract asserted on the real compiled
//! `Subscription::update_state` (through the cfg hook `verif_update_state`, which only forwards). Loop-free and
//! full-domain, so it is a second complete proof; its main job is to supply a concrete (state, counters, inputs)
//! when the Verus obligation fails, and to carry the witness of the listed known finding.
use crate::util::fixed_random_state;
use opcua::server::diagnostics::ServerDiagnostics;
use opcua::server::subscriptions::subscription::Subscription;
use opcua::sync::RwLock;
use std::sync::Arc;

const CLOSED: u8 = 0;
const CREATING: u8 = 1;
const NORMAL: u8 = 2;
const LATE: u8 = 3;
const KEEPALIVE: u8 = 4;
const ACT_NONE: u8 = 0;
const ACT_KEEPALIVE: u8 = 1;
const ACT_EXPIRED: u8 = 4;

#[derive(Clone, Copy)]
struct S {
    state: u8,
    lifetime: u32,
    keep_alive: u32,
    sent: bool,
    max_lifetime: u32,
    max_keep_alive: u32,
    enabled: bool,
}
fn get(s: &Subscription) -> S {
    let g = s.verif_get();
    S { state: g.0, lifetime: g.1, keep_alive: g.2, sent: g.3, max_lifetime: g.4, max_keep_alive: g.5, enabled: g.6 }
}
fn inv(s: S) -> bool {
    1 <= s.max_keep_alive
        && 3 * (s.max_keep_alive as u64) <= s.max_lifetime as u64
        && 1 <= s.keep_alive && s.keep_alive <= s.max_keep_alive
        && 1 <= s.lifetime && s.lifetime <= s.max_lifetime
}
fn alive(s: S) -> bool { s.state == NORMAL || s.state == LATE || s.state == KEEPALIVE }
fn rank_a(s: S) -> u64 {
    match s.state {
        CREATING => 2,
        NORMAL => if s.sent { s.max_keep_alive as u64 + 1 } else { 1 },
        KEEPALIVE => s.keep_alive as u64,
        LATE => 1,
        _ => 0,
    }
}
fn inv_a(s: S) -> bool {
    s.state != LATE && s.state != CLOSED
        && (s.state != CREATING || s.lifetime >= 2)
        && (s.state == CREATING || s.lifetime as u64 > rank_a(s))
}

fn any_subscription() -> Subscription {
    let diag = Arc::new(RwLock::new(ServerDiagnostics::verif_new()));
    let max_lt: u32 = kani::any();
    let max_ka: u32 = kani::any();
    let mut s = Subscription::verif_new(diag, kani::any(), max_lt, max_ka);
    let st: u8 = kani::any();
    kani::assume(st <= 4);
    s.verif_set(st, kani::any(), kani::any(), kani::any());
    s
}

#[kani::proof]
#[kani::stub(std::hash::RandomState::new, fixed_random_state)]
pub fn c22_update_state_twin() {
    let mut sub = any_subscription();
    let o = get(&sub);
    kani::assume(inv(o));
    let timer_fired: bool = kani::any();
    let notif: bool = kani::any();
    let more: bool = kani::any();
    let queued: bool = kani::any();
    let expired: bool = kani::any();
    kani::assume(!(!timer_fired && expired)); // caller obligation of Subscription::tick
    let (_handled, act) = sub.verif_update_state(timer_fired, notif, more, queued, expired);
    let n = get(&sub);

    assert!(inv(n), "C22.twin.inv_preserved");
    assert!(n.max_keep_alive == o.max_keep_alive && n.max_lifetime == o.max_lifetime && n.enabled == o.enabled, "C22.twin.frame");
    assert!((act == ACT_EXPIRED) == (alive(o) && o.lifetime == 1), "C22.twin.expired_iff_lifetime_used_up");
    assert!(act != ACT_EXPIRED || n.state == CLOSED, "C22.twin.expired_closes");
    assert!(n.state != CLOSED || o.state == CLOSED || act == ACT_EXPIRED, "C22.twin.closed_only_by_expiry");
    assert!(n.lifetime as u64 + 1 >= o.lifetime as u64, "C22.twin.lifetime_consumed_at_most_one");

    let scen_a = o.enabled && timer_fired && expired && queued && !notif && !more && o.state != CLOSED;
    let kf_ka1_lt3 = o.max_keep_alive == 1 && o.max_lifetime == 3; // KNOWN FINDING C22.ka1_lt3
    if scen_a && inv_a(o) && !kf_ka1_lt3 {
        assert!(act != ACT_EXPIRED, "C22.twin.scenA_never_expires");
        assert!(inv_a(n), "C22.twin.scenA_budget_kept");
        assert!(act == ACT_KEEPALIVE || rank_a(n) < rank_a(o), "C22.twin.scenA_progress_to_keep_alive");
        assert!(!(o.state == NORMAL && !o.sent) || act == ACT_KEEPALIVE, "C22.twin.scenA_first_interval_keep_alive");
        assert!(act != ACT_KEEPALIVE || rank_a(n) <= n.max_keep_alive as u64 + 1, "C22.twin.scenA_next_within_max_plus_one");
    }
    let scen_a_rx = o.enabled && !timer_fired && !expired && !notif && !more && (o.state == NORMAL || o.state == KEEPALIVE);
    if scen_a_rx && inv_a(o) {
        assert!(act == ACT_NONE && n.state == o.state && n.lifetime == o.lifetime && n.keep_alive == o.keep_alive && n.sent == o.sent,
            "C22.twin.scenA_request_arrival_is_stutter");
    }
    let scen_b = timer_fired && expired && !queued && alive(o);
    if scen_b {
        if o.lifetime == 1 {
            assert!(act == ACT_EXPIRED, "C22.twin.scenB_expires_at_one");
        } else {
            assert!(n.lifetime == o.lifetime - 1 && alive(n) && act == ACT_NONE, "C22.twin.scenB_counts_down");
        }
    }
    kani::cover!(scen_a && inv_a(o) && !kf_ka1_lt3 && o.state == KEEPALIVE && o.keep_alive == 1, "C22.cover.row15");
    kani::cover!(scen_a && inv_a(o) && !kf_ka1_lt3 && o.state == NORMAL && !o.sent, "C22.cover.row7");
    kani::cover!(scen_b && o.lifetime == 1, "C22.cover.expiry");
    kani::cover!(scen_b && o.lifetime > 1 && o.state == LATE, "C22.cover.late_countdown");
    kani::cover!(scen_a_rx && inv_a(o), "C22.cover.request_arrival");
    std::mem::forget(sub);
}

/// Witness of the known finding C22.ka1_lt3: max keep-alive count 1, lifetime count 3 (allowed by the revised
/// parameters: lifetime >= 3 * keep-alive), requests always queued, no data: the 4th publishing interval expires
/// the subscription. Expected to FAIL while the finding exists.
#[kani::proof]
#[kani::stub(std::hash::RandomState::new, fixed_random_state)]
pub fn c22_kf_ka1_lt3_witness() {
    let diag = Arc::new(RwLock::new(ServerDiagnostics::verif_new()));
    let mut sub = Subscription::verif_new(diag, true, 3, 1);
    let mut i = 0;
    while i < 4 {
        let (_h, act) = sub.verif_update_state(true, false, false, true, true);
        assert!(act != ACT_EXPIRED, "C22.kf.ka1_lt3_expires_with_requests_queued");
        i += 1;
    }
    std::mem::forget(sub);
}
