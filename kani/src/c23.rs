//! C23 Revised subscription and monitored item parameters respect the limits.
//! Functions under contract (real code, reached through cfg hooks that only forward):
//!   SubscriptionService::revise_subscription_values   lib/src/server/services/subscription.rs
//!   MonitoredItem::sanitize_sampling_interval / sanitize_queue_size   lib/src/server/subscriptions/monitored_item.rs
use crate::util::fixed_random_state;
use opcua::server::state::ServerState;
use opcua::server::subscriptions::monitored_item::verif as mi;
use opcua::server::verif_subscription_service as ss;

/// Limits as `Server::new` (lib/src/server/server.rs:154-176) can establish them:
///  - default/max keep-alive and max lifetime are the constants 10 / 30000 / 3*30000; the contract only
///    needs 1 <= default <= max and max_lifetime == 3*max (no overflow), kept symbolic beyond that;
///  - the configurable limits (queue size incl. 0 = "no limit", minimum intervals) are symbolic;
///    minimum intervals are assumed finite and >= 0 (ServerConfig does not validate them: assumption).
fn any_state() -> ServerState {
    let max_queue: usize = kani::any();
    let min_pub: f64 = kani::any();
    let min_samp: f64 = kani::any();
    let default_ka: u32 = kani::any();
    let max_ka: u32 = kani::any();
    kani::assume(min_pub.is_finite() && min_pub >= 0.0);
    kani::assume(min_samp.is_finite() && min_samp >= 0.0);
    kani::assume(max_ka >= 1 && max_ka <= u32::MAX / 3);
    kani::assume(default_ka >= 1 && default_ka <= max_ka);
    ServerState::verif_minimal(max_queue, min_pub, min_samp, default_ka, max_ka, max_ka * 3)
}

#[kani::proof]
#[kani::stub(std::hash::RandomState::new, fixed_random_state)]
pub fn c23_revise_subscription_values() {
    let st = any_state();
    let req_interval: f64 = kani::any();
    let req_ka: u32 = kani::any();
    let req_lt: u32 = kani::any();
    let (interval, ka, lt) = ss::revise_subscription_values(&st, req_interval, req_ka, req_lt);
    assert!(interval >= st.min_publishing_interval_ms, "C23.revise.interval_at_least_min");
    assert!(!interval.is_nan(), "C23.revise.interval_not_nan");
    assert!(ka >= 1 && ka <= st.max_keep_alive_count, "C23.revise.keep_alive_in_1_max");
    assert!(lt as u64 >= 3 * ka as u64, "C23.revise.lifetime_at_least_3_keep_alive");
    // (that a requested value inside the limits is kept as it is would be more than the property states: a server may round)
    kani::cover!(req_interval.is_nan(), "C23.cover.nan_interval");
    kani::cover!(req_ka == 0, "C23.cover.ka_zero");
    kani::cover!(req_ka > st.max_keep_alive_count, "C23.cover.ka_above_max");
    kani::cover!(req_lt > st.max_lifetime_count, "C23.cover.lt_above_max");
    kani::cover!(req_lt < 3, "C23.cover.lt_small");
    std::mem::forget(st); // dropping Arc<RwLock<..>> graphs is irrelevant to the contract
}

#[kani::proof]
#[kani::stub(std::hash::RandomState::new, fixed_random_state)]
pub fn c23_sanitize_sampling_interval() {
    let st = any_state();
    let req: f64 = kani::any();
    let r = mi::sanitize_sampling_interval(&st, req);
    assert!(r == -1.0 || r >= st.min_sampling_interval_ms, "C23.sampling.minus_one_or_at_least_min");
    kani::cover!(req.is_nan(), "C23.cover.nan_sampling");
    kani::cover!(req == 0.0, "C23.cover.zero_sampling");
    kani::cover!(req.is_infinite() && req > 0.0, "C23.cover.inf_sampling");
    std::mem::forget(st);
}

#[kani::proof]
#[kani::stub(std::hash::RandomState::new, fixed_random_state)]
pub fn c23_sanitize_queue_size() {
    let st = any_state();
    let req: usize = kani::any();
    let r = mi::sanitize_queue_size(&st, req);
    let max = st.max_monitored_item_queue_size;
    assert!(r >= 1, "C23.queue.at_least_one");
    // the documented meaning of 0 is "no limit" (lib/src/server/state.rs, field max_monitored_item_queue_size)
    if max != 0 {
        assert!(r <= max, "C23.queue.at_most_max");
    }
    kani::cover!(max == 0 && req > 1, "C23.cover.no_limit");
    kani::cover!(max != 0 && req > max, "C23.cover.above_max");
    std::mem::forget(st);
}
