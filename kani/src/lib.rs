//! Kani harnesses over the real `opcua` crate (path dependency on /repo/lib).
//! Every `assert!` message starts with the obligation id `<Cnn>.<unit>.<name>`.
#![allow(dead_code, unused_imports, clippy::all)]

#[cfg(any(kani, feature = "replay"))]
pub mod util;

#[cfg(kani)]
pub mod c37;
#[cfg(kani)]
pub mod c23;
#[cfg(kani)]
pub mod c22;
#[cfg(kani)]
pub mod c07;
#[cfg(kani)]
pub mod c06;
#[cfg(kani)]
pub mod c32;
#[cfg(kani)]
pub mod c25;
#[cfg(kani)]
pub mod c03;
#[cfg(kani)]
pub mod c09;

// written by `./check <id> --replay <file>` (Kani concrete playback of a recorded counterexample)
#[cfg(all(kani, test))]
mod playback_gen;
