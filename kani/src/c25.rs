//! C25 Data change filters report exactly the changes they describe.
//! Functions under contract (real compiled code): DataChangeFilter::{abs_compare, compare_value, compare_value_option, compare}
//! (lib/src/types/service_types/impls.rs). Loop-free over full-domain scalars: complete proofs of these clauses.
use crate::util::*;
use opcua::types::service_types::{DataChangeFilter, DataChangeTrigger, DeadbandType};
use opcua::types::status_code::StatusCode;
use opcua::types::{DataValue, DateTime, ExpandedNodeId, Guid, NodeId, Variant};
use std::str::FromStr;

/// absolute deadband: "same" exactly when the value moved by no more than the deadband; an unchanged value is
/// never a change (including +-inf); all f64 bit patterns, deadband >= 0
#[kani::proof]
pub fn c25_abs_compare() {
    let a: f64 = kani::any();
    let b: f64 = kani::any();
    let d: f64 = kani::any();
    kani::assume(d >= 0.0);
    let same = DataChangeFilter::abs_compare(a, b, d);
    if a == b {
        assert!(same, "C25.abs.unchanged_value_is_not_a_change");
    }
    if a.is_finite() && b.is_finite() {
        assert!(same == !((a - b).abs() > d), "C25.abs.change_iff_moved_by_more_than_deadband");
    }
    if a.is_nan() != b.is_nan() {
        assert!(!same, "C25.abs.nan_vs_number_is_a_change");
    }
    kani::cover!(a.is_infinite() && a == b, "C25.cover.equal_infinities");
    kani::cover!(a.is_finite() && b.is_finite() && !same, "C25.cover.changed");
}

fn any_trigger() -> DataChangeTrigger {
    let k: u8 = kani::any();
    kani::assume(k < 3);
    match k { 0 => DataChangeTrigger::Status, 1 => DataChangeTrigger::StatusValue, _ => DataChangeTrigger::StatusValueTimestamp }
}

/// value comparison on Double values: no deadband -> equality; absolute deadband -> abs_compare;
/// a filter that can never report (percent deadband without an engineering-unit range, unknown deadband type,
/// negative deadband) is reported as invalid, never silently "same"
#[kani::proof]
#[kani::stub(<NodeId as FromStr>::from_str, stub_node_id_from_str)]
#[kani::stub(<ExpandedNodeId as FromStr>::from_str, stub_expanded_node_id_from_str)]
#[kani::stub(<Guid as FromStr>::from_str, stub_guid_from_str)]
#[kani::stub(<DateTime as FromStr>::from_str, stub_date_time_from_str)]
#[kani::stub(std::fmt::format, stub_format)]
pub fn c25_compare_value() {
    let a: f64 = kani::any();
    let b: f64 = kani::any();
    let deadband_type: u32 = kani::any();
    let deadband_value: f64 = kani::any();
    let f = DataChangeFilter { trigger: DataChangeTrigger::StatusValue, deadband_type, deadband_value };
    let (v1, v2) = (Variant::Double(a), Variant::Double(b));
    let r = f.compare_value(&v1, &v2, None);
    if deadband_type == DeadbandType::None as u32 {
        assert!(r == Ok(a == b), "C25.value.no_deadband_is_equality");
    } else if deadband_value < 0.0 {
        assert!(r.is_err(), "C25.value.negative_deadband_is_invalid");
    } else if deadband_type == DeadbandType::Absolute as u32 {
        if !deadband_value.is_nan() {
            assert!(r == Ok(DataChangeFilter::abs_compare(a, b, deadband_value)), "C25.value.absolute_deadband");
        }
    } else {
        // percent deadband without a range, or an unknown type: cannot be evaluated
        assert!(r.is_err(), "C25.value.unevaluable_filter_is_an_error_not_same");
    }
    kani::cover!(deadband_type == DeadbandType::Percent as u32, "C25.cover.percent");
    kani::cover!(deadband_type == DeadbandType::Absolute as u32 && r == Ok(false), "C25.cover.abs_changed");
    std::mem::forget(v1); std::mem::forget(v2);
}

/// trigger semantics of `compare` (true = same): Status -> status only; StatusValue -> status and value;
/// StatusValueTimestamp -> status, value and server timestamp
#[kani::proof]
#[kani::stub(<NodeId as FromStr>::from_str, stub_node_id_from_str)]
#[kani::stub(<ExpandedNodeId as FromStr>::from_str, stub_expanded_node_id_from_str)]
#[kani::stub(<Guid as FromStr>::from_str, stub_guid_from_str)]
#[kani::stub(<DateTime as FromStr>::from_str, stub_date_time_from_str)]
#[kani::stub(std::fmt::format, stub_format)]
pub fn c25_compare_triggers() {
    let trigger = any_trigger();
    let f = DataChangeFilter { trigger, deadband_type: DeadbandType::None as u32, deadband_value: 0.0 };
    let (x1, x2): (i32, i32) = (kani::any(), kani::any());
    let (s1, s2): (u32, u32) = (kani::any(), kani::any());
    let (t1, t2): (bool, bool) = (kani::any(), kani::any());
    let mk = |x: i32, s: u32, t: bool| {
        let mut d = DataValue::null();
        d.value = Some(Variant::Int32(x));
        d.status = Some(StatusCode::from_bits_truncate(s));
        d.server_timestamp = if t { Some(DateTime::null()) } else { None };
        d
    };
    let (d1, d2) = (mk(x1, s1, t1), mk(x2, s2, t2));
    let same = f.compare(&d1, &d2, None);
    let status_same = StatusCode::from_bits_truncate(s1) == StatusCode::from_bits_truncate(s2);
    let want = match trigger {
        DataChangeTrigger::Status => status_same,
        DataChangeTrigger::StatusValue => status_same && x1 == x2,
        DataChangeTrigger::StatusValueTimestamp => status_same && x1 == x2 && t1 == t2,
    };
    assert!(same == want, "C25.compare.trigger_selects_what_counts_as_a_change");
    kani::cover!(trigger == DataChangeTrigger::StatusValueTimestamp && !same && status_same && x1 == x2, "C25.cover.timestamp_only_change");
    std::mem::forget(d1); std::mem::forget(d2);
}
