//! C37 Reconnect back-off follows its policy and never overflows.
//! Function under contract: `<ExponentialBackoff as Iterator>::next` (lib/src/client/retry.rs),
//! reached through the cfg hook `opcua::client::verif_retry::step`.
use opcua::client::verif_retry::{new, step, Parts};
use std::time::Duration;

fn any_duration() -> Duration {
    let secs: u64 = kani::any();
    let nanos: u32 = kani::any();
    kani::assume(nanos < 1_000_000_000);
    Duration::new(secs, nanos)
}

/// A duration as the exact pair (seconds, nanoseconds < 10^9); pairs are ordered lexicographically,
/// which is the order of the denoted real numbers. (No wide multiplication: CBMC cannot bit-blast
/// a 128-bit multiply by 10^9 in reasonable time — measured 15 min without an answer.)
type Sn = (u128, u32);
fn sn(d: Duration) -> Sn {
    (d.as_secs() as u128, d.subsec_nanos())
}
/// 2*d over the integers (seconds are not truncated to 64 bits)
fn doubled(d: Duration) -> Sn {
    let n = d.subsec_nanos() + d.subsec_nanos(); // < 2*10^9 < 2^32
    let carry = n >= 1_000_000_000;
    let n2 = if carry { n - 1_000_000_000 } else { n };
    (d.as_secs() as u128 + d.as_secs() as u128 + carry as u128, n2)
}
fn lt(a: Sn, b: Sn) -> bool {
    a.0 < b.0 || (a.0 == b.0 && a.1 < b.1)
}

/// Step contract, full domain (loop-free => complete proof):
///  - no panic for any durations / counters
///  - `None` iff limited and the limit is used up; then the state is unchanged
///  - otherwise yields the current delay; the next delay is min(max, 2*current) over the integers;
///    the count of delays handed out grows by one (exactly, whenever a limit exists)
///  - max delay and the limit are never modified
#[kani::proof]
pub fn c37_step_contract() {
    let max_sleep = any_duration();
    let current = any_duration();
    let max_retries: Option<u32> = kani::any();
    let retry_count: u32 = kani::any();
    let old: Parts = (max_sleep, max_retries, current, retry_count);
    let (r, new) = step(old);

    assert!(new.0 == old.0 && new.1 == old.1, "C37.step.frame");
    let exhausted = match max_retries { Some(m) => retry_count >= m, None => false };
    assert!(r.is_none() == exhausted, "C37.step.none_iff_exhausted");
    match r {
        None => assert!(new == old, "C37.step.none_keeps_state"),
        Some(d) => {
            assert!(d == current, "C37.step.yields_current");
            let dbl = doubled(current);
            let want = if lt(dbl, sn(max_sleep)) { dbl } else { sn(max_sleep) };
            assert!(sn(new.2) == want, "C37.step.next_is_min_max_double");
            if max_retries.is_some() {
                assert!(new.3 as u64 == retry_count as u64 + 1, "C37.step.count_plus_one");
            } else {
                assert!(new.3 >= retry_count, "C37.step.count_monotone_unlimited");
            }
        }
    }
    // vacuity guards: every input class of the contract is reachable
    kani::cover!(r.is_none(), "C37.cover.exhausted");
    kani::cover!(r.is_some() && max_retries.is_none() && retry_count == u32::MAX, "C37.cover.unlimited_at_max_count");
    kani::cover!(r.is_some() && lt(sn(Duration::MAX), doubled(current)), "C37.cover.double_overflows_duration");
    kani::cover!(r.is_some() && lt(doubled(current), sn(max_sleep)), "C37.cover.below_cap");
}

/// The constructor establishes the start of the sequence: first delay == initial delay, count 0.
#[kani::proof]
pub fn c37_new_contract() {
    let max_sleep = any_duration();
    let initial = any_duration();
    let max_retries: Option<u32> = kani::any();
    let p = new(max_sleep, max_retries, initial);
    assert!(p == (max_sleep, max_retries, initial, 0), "C37.new.initial_state");
    let (r, _) = step(p);
    match max_retries {
        Some(0) => assert!(r.is_none(), "C37.new.limit_zero_yields_nothing"),
        _ => assert!(r == Some(initial), "C37.new.first_is_initial"),
    }
    kani::cover!(max_retries == Some(0), "C37.cover.limit_zero");
    kani::cover!(max_retries.is_none(), "C37.cover.unlimited");
}

