//! C09 — Kani side: the environment contracts that the Verus unit c09_receive assumes about repository code
//! which is outside the Verus dialect (generic `S: Read` decoders, an iterator loop), checked on the real
//! compiled functions. BOUNDED where a buffer is involved (stated per harness).
use opcua::core::comms::message_chunk::MessageChunkHeader;
use opcua::core::comms::secure_channel::SecureChannel;
use opcua::core::comms::security_header::{SequenceHeader, SymmetricSecurityHeader};
use opcua::types::{BinaryEncoder, DecodingOptions};
use std::io::Cursor;

/// MessageChunkHeader::decode: Ok => exactly 12 bytes consumed, position inside the buffer; any 16 bytes.
#[kani::proof]
pub fn c09_env_chunk_header_decode() {
    let bytes: [u8; 16] = kani::any();
    let len: usize = kani::any();
    kani::assume(len <= 16);
    let data = &bytes[..len];
    let mut stream = Cursor::new(&data);
    let r = MessageChunkHeader::decode(&mut stream, &DecodingOptions::minimal());
    if let Ok(ref h) = r {
        assert!(stream.position() == 12, "C09.env.chunk_header_consumes_12");
        assert!(stream.position() as usize <= len, "C09.env.chunk_header_position_in_buffer");
        // is-OPN is a function of the first three bytes
        assert!(h.message_type.is_open_secure_channel() == (bytes[0] == b'O' && bytes[1] == b'P' && bytes[2] == b'N'),
            "C09.env.is_opn_is_function_of_header_bytes");
    }
    kani::cover!(r.is_ok(), "C09.cover.header_ok");
    kani::cover!(r.is_err(), "C09.cover.header_err");
}

/// SymmetricSecurityHeader / SequenceHeader decode: Ok => 4 / 8 bytes consumed, position inside the buffer.
#[kani::proof]
pub fn c09_env_symmetric_header_decode() {
    let bytes: [u8; 12] = kani::any();
    let len: usize = kani::any();
    kani::assume(len <= 12);
    let data = &bytes[..len];
    let mut stream = Cursor::new(&data);
    let r = SymmetricSecurityHeader::decode(&mut stream, &DecodingOptions::minimal());
    if r.is_ok() {
        assert!(stream.position() == 4 && len >= 4, "C09.env.symmetric_header_consumes_4");
        let r2 = SequenceHeader::decode(&mut stream, &DecodingOptions::minimal());
        if r2.is_ok() {
            assert!(stream.position() == 12 && len >= 12, "C09.env.sequence_header_consumes_8");
        }
    }
    kani::cover!(r.is_ok(), "C09.cover.sym_ok");
    kani::cover!(r.is_err(), "C09.cover.sym_err");
}

/// check_padding_bytes: Ok => every byte equals the expected byte (bounded: up to 8 padding bytes).
#[kani::proof]
#[kani::unwind(10)]
pub fn c09_env_padding() {
    let bytes: [u8; 8] = kani::any();
    let len: usize = kani::any();
    kani::assume(len <= 8);
    let expected: u8 = kani::any();
    // the third argument only goes into a log message: the offset of the padding in the chunk, i.e. an index into a buffer
    // (the callers pass `padding_range.start` of a range inside `src`), so start + len never exceeds isize::MAX
    let start: usize = kani::any();
    kani::assume(start <= (isize::MAX as usize) - 8);
    let r = SecureChannel::verif_check_padding_bytes(&bytes[..len], expected, start);
    let mut all = true;
    let mut i = 0;
    while i < len { if bytes[i] != expected { all = false; } i += 1; }
    assert!(r.is_ok() == all, "C09.env.check_padding_bytes_ok_iff_all_equal");
    kani::cover!(r.is_ok() && len == 8, "C09.cover.padding_ok");
    kani::cover!(r.is_err(), "C09.cover.padding_err");
}
