//! C06 Implicit Variant conversion never changes a numeric value; explicit casts round to nearest.
//! Functions under contract: `Variant::convert`, `Variant::cast` (lib/src/types/variant.rs), real compiled code.
//! One harness per numeric source type; the value and the numeric target type are fully symbolic, so every
//! harness is loop-free over the full domain (complete proof for that source type).
use crate::util::*;
use opcua::types::{ExpandedNodeId, Guid, NodeId, DateTime, Variant, VariantTypeId};
use std::str::FromStr;

#[derive(Clone, Copy, PartialEq)]
enum T { Bool, I8, U8, I16, U16, I32, U32, I64, U64, F32, F64 }

fn any_target() -> T {
    let k: u8 = kani::any();
    kani::assume(k < 11);
    match k { 0 => T::Bool, 1 => T::I8, 2 => T::U8, 3 => T::I16, 4 => T::U16, 5 => T::I32, 6 => T::U32, 7 => T::I64, 8 => T::U64, 9 => T::F32, _ => T::F64 }
}
fn type_id(t: T) -> VariantTypeId {
    match t {
        T::Bool => VariantTypeId::Boolean, T::I8 => VariantTypeId::SByte, T::U8 => VariantTypeId::Byte,
        T::I16 => VariantTypeId::Int16, T::U16 => VariantTypeId::UInt16, T::I32 => VariantTypeId::Int32,
        T::U32 => VariantTypeId::UInt32, T::I64 => VariantTypeId::Int64, T::U64 => VariantTypeId::UInt64,
        T::F32 => VariantTypeId::Float, T::F64 => VariantTypeId::Double,
    }
}
/// inclusive integer range of an integer target
fn range(t: T) -> Option<(i128, i128)> {
    Some(match t {
        T::I8 => (i8::MIN as i128, i8::MAX as i128), T::U8 => (0, u8::MAX as i128),
        T::I16 => (i16::MIN as i128, i16::MAX as i128), T::U16 => (0, u16::MAX as i128),
        T::I32 => (i32::MIN as i128, i32::MAX as i128), T::U32 => (0, u32::MAX as i128),
        T::I64 => (i64::MIN as i128, i64::MAX as i128), T::U64 => (0, u64::MAX as i128),
        _ => return None,
    })
}
/// the integer a variant denotes, if it is an integer (or boolean) variant
fn int_of(v: &Variant) -> Option<i128> {
    Some(match v {
        Variant::Boolean(b) => *b as i128,
        Variant::SByte(x) => *x as i128, Variant::Byte(x) => *x as i128,
        Variant::Int16(x) => *x as i128, Variant::UInt16(x) => *x as i128,
        Variant::Int32(x) => *x as i128, Variant::UInt32(x) => *x as i128,
        Variant::Int64(x) => *x as i128, Variant::UInt64(x) => *x as i128,
        _ => return None,
    })
}
fn is_type(v: &Variant, t: T) -> bool { v.type_id() == type_id(t) }

/// widening integer conversions that Part 4 table 118 marks implicit and whose target range contains the
/// whole source range: they must succeed (keeps "everything is Empty" from satisfying the contract)
fn must_succeed(s: T, t: T) -> bool {
    matches!((s, t),
        (T::I8, T::I16) | (T::I8, T::I32) | (T::I8, T::I64)
        | (T::U8, T::I16) | (T::U8, T::U16) | (T::U8, T::I32) | (T::U8, T::U32) | (T::U8, T::I64) | (T::U8, T::U64)
        | (T::I16, T::I32) | (T::I16, T::I64)
        | (T::U16, T::I32) | (T::U16, T::U32) | (T::U16, T::I64) | (T::U16, T::U64)
        | (T::I32, T::I64) | (T::U32, T::I64) | (T::U32, T::U64) | (T::F32, T::F64))
}

/// contract of `convert` for an integer (or boolean) source denoting `x`
fn check_convert_int(src: Variant, s: T, x: i128, as_f32: f32, as_f64: f64) {
    let t = any_target();
    let r = src.convert(type_id(t));
    if s == t {
        assert!(r == src, "C06.convert.same_type_is_identity");
        return;
    }
    assert!(r == Variant::Empty || is_type(&r, t), "C06.convert.result_has_target_type_or_empty");
    match t {
        T::F32 => if let Variant::Float(y) = r { assert!(y == as_f32, "C06.convert.int_to_float_nearest"); },
        T::F64 => if let Variant::Double(y) = r { assert!(y == as_f64, "C06.convert.int_to_double_nearest"); },
        T::Bool => if let Variant::Boolean(y) = r { assert!(x == y as i128, "C06.convert.to_bool_same_number"); },
        _ => {
            let (lo, hi) = range(t).unwrap();
            if let Some(y) = int_of(&r) {
                assert!(y == x, "C06.convert.integer_value_preserved");
            }
            if x < lo || x > hi {
                assert!(r == Variant::Empty, "C06.convert.out_of_range_yields_no_result");
            } else if must_succeed(s, t) {
                assert!(r != Variant::Empty, "C06.convert.widening_succeeds");
            }
        }
    }
    kani::cover!(range(t).is_some() && r != Variant::Empty, "C06.cover.int_result");
    kani::cover!(range(t).is_some() && r == Variant::Empty, "C06.cover.no_result");
}

/// contract of `cast` for an integer source denoting `x`, integer targets
fn check_cast_int(src: Variant, s: T, x: i128) {
    let t = any_target();
    kani::assume(range(t).is_some() && s != t);
    let r = src.cast(type_id(t));
    let (lo, hi) = range(t).unwrap();
    assert!(r == Variant::Empty || is_type(&r, t), "C06.cast.result_has_target_type_or_empty");
    if let Some(y) = int_of(&r) {
        assert!(y == x, "C06.cast.integer_value_preserved");
    }
    if x < lo || x > hi {
        assert!(r == Variant::Empty, "C06.cast.out_of_range_yields_no_result");
    }
    kani::cover!(r != Variant::Empty, "C06.cover.cast_result");
    kani::cover!(r == Variant::Empty, "C06.cover.cast_no_result");
}

macro_rules! int_harness {
    ($conv:ident, $cast:ident, $ty:ty, $variant:ident, $t:expr) => {
        #[kani::proof]
        #[kani::stub(<NodeId as FromStr>::from_str, stub_node_id_from_str)]
        #[kani::stub(<ExpandedNodeId as FromStr>::from_str, stub_expanded_node_id_from_str)]
        #[kani::stub(<Guid as FromStr>::from_str, stub_guid_from_str)]
        #[kani::stub(<DateTime as FromStr>::from_str, stub_date_time_from_str)]
        #[kani::stub(std::fmt::format, stub_format)]
        pub fn $conv() {
            let x: $ty = kani::any();
            check_convert_int(Variant::$variant(x), $t, x as i128, x as f32, x as f64);
        }
        #[kani::proof]
        #[kani::stub(<NodeId as FromStr>::from_str, stub_node_id_from_str)]
        #[kani::stub(<ExpandedNodeId as FromStr>::from_str, stub_expanded_node_id_from_str)]
        #[kani::stub(<Guid as FromStr>::from_str, stub_guid_from_str)]
        #[kani::stub(<DateTime as FromStr>::from_str, stub_date_time_from_str)]
        #[kani::stub(std::fmt::format, stub_format)]
        pub fn $cast() {
            let x: $ty = kani::any();
            check_cast_int(Variant::$variant(x), $t, x as i128);
        }
    };
}
int_harness!(c06_convert_i8, c06_cast_i8, i8, SByte, T::I8);
int_harness!(c06_convert_u8, c06_cast_u8, u8, Byte, T::U8);
int_harness!(c06_convert_i16, c06_cast_i16, i16, Int16, T::I16);
int_harness!(c06_convert_u16, c06_cast_u16, u16, UInt16, T::U16);
int_harness!(c06_convert_i32, c06_cast_i32, i32, Int32, T::I32);
int_harness!(c06_convert_u32, c06_cast_u32, u32, UInt32, T::U32);
int_harness!(c06_convert_i64, c06_cast_i64, i64, Int64, T::I64);
int_harness!(c06_convert_u64, c06_cast_u64, u64, UInt64, T::U64);

#[kani::proof]
#[kani::stub(<NodeId as FromStr>::from_str, stub_node_id_from_str)]
#[kani::stub(<ExpandedNodeId as FromStr>::from_str, stub_expanded_node_id_from_str)]
#[kani::stub(<Guid as FromStr>::from_str, stub_guid_from_str)]
#[kani::stub(<DateTime as FromStr>::from_str, stub_date_time_from_str)]
#[kani::stub(std::fmt::format, stub_format)]
pub fn c06_convert_bool() {
    let b: bool = kani::any();
    let t = any_target();
    let r = Variant::Boolean(b).convert(type_id(t));
    assert!(r == Variant::Empty || is_type(&r, t), "C06.convert.result_has_target_type_or_empty");
    if let Some(y) = int_of(&r) { assert!(y == b as i128, "C06.convert.bool_is_0_or_1"); }
    if let Variant::Float(y) = r { assert!(y == (b as u8) as f32, "C06.convert.bool_is_0_or_1"); }
    if let Variant::Double(y) = r { assert!(y == (b as u8) as f64, "C06.convert.bool_is_0_or_1"); }
}

/// convert from floating point sources: Float -> Double is exact; nothing else may change the number
#[kani::proof]
#[kani::stub(<NodeId as FromStr>::from_str, stub_node_id_from_str)]
#[kani::stub(<ExpandedNodeId as FromStr>::from_str, stub_expanded_node_id_from_str)]
#[kani::stub(<Guid as FromStr>::from_str, stub_guid_from_str)]
#[kani::stub(<DateTime as FromStr>::from_str, stub_date_time_from_str)]
#[kani::stub(std::fmt::format, stub_format)]
pub fn c06_convert_float() {
    let x: f32 = kani::any();
    let t = any_target();
    kani::assume(t != T::F32);
    let r = Variant::Float(x).convert(type_id(t));
    assert!(r == Variant::Empty || is_type(&r, t), "C06.convert.result_has_target_type_or_empty");
    if let Variant::Double(y) = r {
        assert!(y.to_bits() == (x as f64).to_bits(), "C06.convert.float_to_double_exact");
    }
    if t == T::F64 { assert!(r != Variant::Empty, "C06.convert.widening_succeeds"); }
    if let Some(y) = int_of(&r) {
        assert!(y as f64 == x as f64 && (y as i128) == (x as f64) as i128, "C06.convert.float_to_int_same_number");
    }
}
#[kani::proof]
#[kani::stub(<NodeId as FromStr>::from_str, stub_node_id_from_str)]
#[kani::stub(<ExpandedNodeId as FromStr>::from_str, stub_expanded_node_id_from_str)]
#[kani::stub(<Guid as FromStr>::from_str, stub_guid_from_str)]
#[kani::stub(<DateTime as FromStr>::from_str, stub_date_time_from_str)]
#[kani::stub(std::fmt::format, stub_format)]
pub fn c06_convert_double() {
    let x: f64 = kani::any();
    let t = any_target();
    kani::assume(t != T::F64);
    let r = Variant::Double(x).convert(type_id(t));
    assert!(r == Variant::Empty || is_type(&r, t), "C06.convert.result_has_target_type_or_empty");
    if let Variant::Float(y) = r {
        assert!(y.to_bits() == (x as f32).to_bits(), "C06.convert.double_to_float_nearest");
    }
    if let Some(y) = int_of(&r) {
        assert!(y as f64 == x && (y as i128) == x as i128, "C06.convert.double_to_int_same_number");
    }
}

/// contract of `cast` float -> integer: the result is one of the integers nearest to x (both neighbours are
/// accepted on an exact tie) and there is no result exactly when the rounded value is out of range / x is not finite
fn check_cast_float(r: Variant, x: f64, t: T) {
    let (lo, hi) = range(t).unwrap();
    assert!(r == Variant::Empty || is_type(&r, t), "C06.cast.result_has_target_type_or_empty");
    if !x.is_finite() {
        assert!(r == Variant::Empty, "C06.cast.nan_inf_yield_no_result");
        return;
    }
    if x.abs() >= 1.0e20 {
        // beyond every 64-bit range
        assert!(r == Variant::Empty, "C06.cast.out_of_range_yields_no_result");
        return;
    }
    // the nearest integers: floor(x + 0.5) and ceil(x - 0.5) (equal unless x is an exact tie);
    // |x| >= 2^53 is already integral and x +- 0.5 rounds back to x
    let up = (x + 0.5).floor();
    let dn = (x - 0.5).ceil();
    let up_i = up as i128; // saturating cast; |up| < 2^127 always holds for f32/f64 inputs below 2^127
    let dn_i = dn as i128;
    let up_in = up_i >= lo && up_i <= hi;
    let dn_in = dn_i >= lo && dn_i <= hi;
    match int_of(&r) {
        Some(y) => assert!(y == up_i || y == dn_i, "C06.cast.rounds_to_nearest"),
        None => assert!(!up_in || !dn_in, "C06.cast.no_result_only_when_rounded_value_out_of_range"),
    }
    if !up_in && !dn_in {
        assert!(r == Variant::Empty, "C06.cast.out_of_range_yields_no_result");
    }
    kani::cover!(x < -1.5 && int_of(&r).is_some(), "C06.cover.negative_rounded");
    kani::cover!(r == Variant::Empty, "C06.cover.cast_no_result");
}
#[kani::proof]
#[kani::stub(<NodeId as FromStr>::from_str, stub_node_id_from_str)]
#[kani::stub(<ExpandedNodeId as FromStr>::from_str, stub_expanded_node_id_from_str)]
#[kani::stub(<Guid as FromStr>::from_str, stub_guid_from_str)]
#[kani::stub(<DateTime as FromStr>::from_str, stub_date_time_from_str)]
#[kani::stub(std::fmt::format, stub_format)]
pub fn c06_cast_double() {
    let x: f64 = kani::any();
    let t = any_target();
    kani::assume(range(t).is_some());
    let r = Variant::Double(x).cast(type_id(t));
    check_cast_float(r, x, t);
}
#[kani::proof]
#[kani::stub(<NodeId as FromStr>::from_str, stub_node_id_from_str)]
#[kani::stub(<ExpandedNodeId as FromStr>::from_str, stub_expanded_node_id_from_str)]
#[kani::stub(<Guid as FromStr>::from_str, stub_guid_from_str)]
#[kani::stub(<DateTime as FromStr>::from_str, stub_date_time_from_str)]
#[kani::stub(std::fmt::format, stub_format)]
pub fn c06_cast_float() {
    let x: f32 = kani::any();
    let t = any_target();
    kani::assume(range(t).is_some());
    let r = Variant::Float(x).cast(type_id(t));
    check_cast_float(r, x as f64, t);
}
