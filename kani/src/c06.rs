//! C06 Implicit Variant conversion never changes a numeric value; explicit casts round to nearest.
//! Functions under contract: `Variant::convert`, `Variant::cast` (lib/src/types/variant.rs), real compiled code.
//! One harness per numeric source type; the value and the numeric target type are fully symbolic, so every
//! harness is loop-free over the full domain (complete proof for that source type).
use crate::util::*;
use opcua::types::{ExpandedNodeId, Guid, NodeId, DateTime, Variant, VariantTypeId};
use std::str::FromStr;

#[derive(Clone, Copy, PartialEq)]
enum T { Bool, I8, U8, I16, U16, I32, U32, I64, U64, F32, F64 }

/// A symbolic target type made every harness exceed 4 minutes; with a concrete target one call costs 2-4 s.
/// The harnesses therefore call the checker once per target type, as straight-line code (no loop, no bound).
/// (a closure called eleven times was measured > 300 s where the same calls written out take 5 s, so the
/// expansion is textual)
macro_rules! for_all_targets {
    ($f:ident ( $($a:expr),* )) => {{
        $f($($a,)* T::Bool); $f($($a,)* T::I8); $f($($a,)* T::U8); $f($($a,)* T::I16); $f($($a,)* T::U16); $f($($a,)* T::I32);
        $f($($a,)* T::U32); $f($($a,)* T::I64); $f($($a,)* T::U64); $f($($a,)* T::F32); $f($($a,)* T::F64);
    }};
}
macro_rules! for_int_targets {
    ($f:ident ( $($a:expr),* )) => {{
        $f($($a,)* T::I8); $f($($a,)* T::U8); $f($($a,)* T::I16); $f($($a,)* T::U16); $f($($a,)* T::I32); $f($($a,)* T::U32);
        $f($($a,)* T::I64); $f($($a,)* T::U64);
    }};
}
fn is_empty(v: &Variant) -> bool { matches!(v, Variant::Empty) }
fn type_id(t: T) -> VariantTypeId {
    match t {
        T::Bool => VariantTypeId::Boolean, T::I8 => VariantTypeId::SByte, T::U8 => VariantTypeId::Byte,
        T::I16 => VariantTypeId::Int16, T::U16 => VariantTypeId::UInt16, T::I32 => VariantTypeId::Int32,
        T::U32 => VariantTypeId::UInt32, T::I64 => VariantTypeId::Int64, T::U64 => VariantTypeId::UInt64,
        T::F32 => VariantTypeId::Float, T::F64 => VariantTypeId::Double,
    }
}
/// inclusive integer range of an integer target
fn range(t: T) -> Option<(i128, i128)> {
    Some(match t {
        T::I8 => (i8::MIN as i128, i8::MAX as i128), T::U8 => (0, u8::MAX as i128),
        T::I16 => (i16::MIN as i128, i16::MAX as i128), T::U16 => (0, u16::MAX as i128),
        T::I32 => (i32::MIN as i128, i32::MAX as i128), T::U32 => (0, u32::MAX as i128),
        T::I64 => (i64::MIN as i128, i64::MAX as i128), T::U64 => (0, u64::MAX as i128),
        _ => return None,
    })
}
/// the integer a variant denotes, if it is an integer (or boolean) variant
fn int_of(v: &Variant) -> Option<i128> {
    Some(match v {
        Variant::Boolean(b) => *b as i128,
        Variant::SByte(x) => *x as i128, Variant::Byte(x) => *x as i128,
        Variant::Int16(x) => *x as i128, Variant::UInt16(x) => *x as i128,
        Variant::Int32(x) => *x as i128, Variant::UInt32(x) => *x as i128,
        Variant::Int64(x) => *x as i128, Variant::UInt64(x) => *x as i128,
        _ => return None,
    })
}
fn is_type(v: &Variant, t: T) -> bool { v.type_id() == type_id(t) }

/// widening integer conversions that Part 4 table 118 marks implicit and whose target range contains the
/// whole source range: they must succeed (keeps "everything is Empty" from satisfying the contract)
fn must_succeed(s: T, t: T) -> bool {
    matches!((s, t),
        (T::I8, T::I16) | (T::I8, T::I32) | (T::I8, T::I64)
        | (T::U8, T::I16) | (T::U8, T::U16) | (T::U8, T::I32) | (T::U8, T::U32) | (T::U8, T::I64) | (T::U8, T::U64)
        | (T::I16, T::I32) | (T::I16, T::I64)
        | (T::U16, T::I32) | (T::U16, T::U32) | (T::U16, T::I64) | (T::U16, T::U64)
        | (T::I32, T::I64) | (T::U32, T::I64) | (T::U32, T::U64) | (T::F32, T::F64))
}

/// contract of `convert` for an integer (or boolean) source denoting `x`
fn check_convert_int(src: &Variant, s: T, x: i128, as_f32: f32, as_f64: f64, t: T) {
    let r = src.convert(type_id(t));
    if s == t {
        assert!(int_of(&r) == Some(x), "C06.convert.same_type_is_identity");
        std::mem::forget(r);
        return;
    }
    assert!(is_empty(&r) || is_type(&r, t), "C06.convert.result_has_target_type_or_empty");
    match t {
        T::F32 => if let Variant::Float(y) = r { assert!(y == as_f32, "C06.convert.int_to_float_nearest"); },
        T::F64 => if let Variant::Double(y) = r { assert!(y == as_f64, "C06.convert.int_to_double_nearest"); },
        T::Bool => if let Variant::Boolean(y) = r { assert!(x == y as i128, "C06.convert.to_bool_same_number"); },
        _ => {
            let (lo, hi) = range(t).unwrap();
            if let Some(y) = int_of(&r) {
                assert!(y == x, "C06.convert.integer_value_preserved");
            }
            if x < lo || x > hi {
                assert!(is_empty(&r), "C06.convert.out_of_range_yields_no_result");
            } else if must_succeed(s, t) {
                assert!(!is_empty(&r), "C06.convert.widening_succeeds");
            }
        }
    }
    std::mem::forget(r); // scalar or empty by the assertion above; skips the drop glue of every other variant
}

/// contract of `cast` for an integer source denoting `x`, integer targets
fn check_cast_int(src: &Variant, s: T, x: i128, t: T) {
    if s == t { return; }
    let r = src.cast(type_id(t));
    let (lo, hi) = range(t).unwrap();
    assert!(is_empty(&r) || is_type(&r, t), "C06.cast.result_has_target_type_or_empty");
    if let Some(y) = int_of(&r) {
        assert!(y == x, "C06.cast.integer_value_preserved");
    }
    if x < lo || x > hi {
        assert!(is_empty(&r), "C06.cast.out_of_range_yields_no_result");
    }
    std::mem::forget(r); // scalar or empty by the first assertion; skips the drop glue of every other variant
}

macro_rules! int_harness {
    ($conv:ident, $ty:ty, $variant:ident, $t:expr) => {
        #[kani::proof]
        #[kani::stub(<NodeId as FromStr>::from_str, stub_node_id_from_str)]
        #[kani::stub(<ExpandedNodeId as FromStr>::from_str, stub_expanded_node_id_from_str)]
        #[kani::stub(<Guid as FromStr>::from_str, stub_guid_from_str)]
        #[kani::stub(<DateTime as FromStr>::from_str, stub_date_time_from_str)]
        #[kani::stub(std::fmt::format, stub_format)]
        pub fn $conv() {
            let x: $ty = kani::any();
            let src = Variant::$variant(x);
            for_all_targets!(check_convert_int(&src, $t, x as i128, x as f32, x as f64));
            kani::cover!(x as i128 > i8::MAX as i128 || (x as i128) < 0, "C06.cover.value_outside_some_range");
        }
    };
}
int_harness!(c06_convert_i8, i8, SByte, T::I8);
int_harness!(c06_convert_u8, u8, Byte, T::U8);
int_harness!(c06_convert_i16, i16, Int16, T::I16);
int_harness!(c06_convert_u16, u16, UInt16, T::U16);
int_harness!(c06_convert_i32, i32, Int32, T::I32);
int_harness!(c06_convert_u32, u32, UInt32, T::U32);
int_harness!(c06_convert_i64, i64, Int64, T::I64);
int_harness!(c06_convert_u64, u64, UInt64, T::U64);

#[kani::proof]
#[kani::stub(<NodeId as FromStr>::from_str, stub_node_id_from_str)]
#[kani::stub(<ExpandedNodeId as FromStr>::from_str, stub_expanded_node_id_from_str)]
#[kani::stub(<Guid as FromStr>::from_str, stub_guid_from_str)]
#[kani::stub(<DateTime as FromStr>::from_str, stub_date_time_from_str)]
#[kani::stub(std::fmt::format, stub_format)]
pub fn c06_convert_bool() {
    let b: bool = kani::any();
    let src = Variant::Boolean(b);
    for_all_targets!(check_convert_bool(&src, b));
}
fn check_convert_bool(src: &Variant, b: bool, t: T) {
    {
        let r = src.convert(type_id(t));
        assert!(is_empty(&r) || is_type(&r, t), "C06.convert.result_has_target_type_or_empty");
        if let Some(y) = int_of(&r) { assert!(y == b as i128, "C06.convert.bool_is_0_or_1"); }
        if let Variant::Float(y) = r { assert!(y == (b as u8) as f32, "C06.convert.bool_is_0_or_1"); }
        if let Variant::Double(y) = r { assert!(y == (b as u8) as f64, "C06.convert.bool_is_0_or_1"); }
        std::mem::forget(r);
    }
}

/// convert from floating point sources: Float -> Double is exact; nothing else may change the number
#[kani::proof]
#[kani::stub(<NodeId as FromStr>::from_str, stub_node_id_from_str)]
#[kani::stub(<ExpandedNodeId as FromStr>::from_str, stub_expanded_node_id_from_str)]
#[kani::stub(<Guid as FromStr>::from_str, stub_guid_from_str)]
#[kani::stub(<DateTime as FromStr>::from_str, stub_date_time_from_str)]
#[kani::stub(std::fmt::format, stub_format)]
pub fn c06_convert_float() {
    let x: f32 = kani::any();
    let src = Variant::Float(x);
    for_all_targets!(check_convert_f32(&src, x));
    kani::cover!(x.is_nan(), "C06.cover.nan");
}
fn check_convert_f32(src: &Variant, x: f32, t: T) {
    {
        if t == T::F32 { return; }
        let r = src.convert(type_id(t));
        assert!(is_empty(&r) || is_type(&r, t), "C06.convert.result_has_target_type_or_empty");
        if let Variant::Double(y) = r {
            assert!(y.to_bits() == (x as f64).to_bits(), "C06.convert.float_to_double_exact");
        }
        if t == T::F64 { assert!(!is_empty(&r), "C06.convert.widening_succeeds"); }
        if let Some(y) = int_of(&r) {
            assert!(y as f64 == x as f64 && (y as i128) == (x as f64) as i128, "C06.convert.float_to_int_same_number");
        }
        std::mem::forget(r);
    }
}
#[kani::proof]
#[kani::stub(<NodeId as FromStr>::from_str, stub_node_id_from_str)]
#[kani::stub(<ExpandedNodeId as FromStr>::from_str, stub_expanded_node_id_from_str)]
#[kani::stub(<Guid as FromStr>::from_str, stub_guid_from_str)]
#[kani::stub(<DateTime as FromStr>::from_str, stub_date_time_from_str)]
#[kani::stub(std::fmt::format, stub_format)]
pub fn c06_convert_double() {
    let x: f64 = kani::any();
    let src = Variant::Double(x);
    for_all_targets!(check_convert_f64(&src, x));
    kani::cover!(x.is_nan(), "C06.cover.nan");
}
fn check_convert_f64(src: &Variant, x: f64, t: T) {
    {
        if t == T::F64 { return; }
        let r = src.convert(type_id(t));
        assert!(is_empty(&r) || is_type(&r, t), "C06.convert.result_has_target_type_or_empty");
        if let Variant::Float(y) = r {
            assert!(y.to_bits() == (x as f32).to_bits(), "C06.convert.double_to_float_nearest");
        }
        if let Some(y) = int_of(&r) {
            assert!(y as f64 == x && (y as i128) == x as i128, "C06.convert.double_to_int_same_number");
        }
        std::mem::forget(r);
    }
}

/// (lowest value, highest value + 1) of an integer target as exactly representable doubles
fn frange(t: T) -> (f64, f64) {
    match t {
        T::I8 => (-128.0, 128.0), T::U8 => (0.0, 256.0),
        T::I16 => (-32768.0, 32768.0), T::U16 => (0.0, 65536.0),
        T::I32 => (-2147483648.0, 2147483648.0), T::U32 => (0.0, 4294967296.0),
        T::I64 => (-9223372036854775808.0, 9223372036854775808.0), T::U64 => (0.0, 18446744073709551616.0),
        _ => (0.0, 0.0),
    }
}
/// the value of an integer variant as a double (exact below 2^53)
fn f64_of(v: &Variant) -> Option<f64> {
    Some(match v {
        Variant::SByte(x) => *x as f64, Variant::Byte(x) => *x as f64,
        Variant::Int16(x) => *x as f64, Variant::UInt16(x) => *x as f64,
        Variant::Int32(x) => *x as f64, Variant::UInt32(x) => *x as f64,
        Variant::Int64(x) => *x as f64, Variant::UInt64(x) => *x as f64,
        _ => return None,
    })
}
/// contract of `cast` float -> integer, stated in the float domain (no wide integer arithmetic, which CBMC
/// could not decide within 400 s): the result is an integer within 0.5 of x (either neighbour on an exact tie),
/// and there is no result exactly when the rounded value is out of range or x is not finite.
fn check_cast_float(r: Variant, x: f64, t: T) {
    let (lo, hi1) = frange(t);
    assert!(is_empty(&r) || is_type(&r, t), "C06.cast.result_has_target_type_or_empty");
    if !x.is_finite() {
        assert!(is_empty(&r), "C06.cast.nan_inf_yield_no_result");
        std::mem::forget(r);
        return;
    }
    const TWO52: f64 = 4503599627370496.0;
    match f64_of(&r) {
        Some(y) => {
            if x.abs() < TWO52 {
                // y is integral and at most 2^52 in magnitude, so y - 0.5 and y + 0.5 are computed exactly
                assert!(y - 0.5 <= x && x <= y + 0.5, "C06.cast.rounds_to_nearest");
            } else {
                // x is integral; the result must be that integer (compared as integers, the double
                // image of a 64-bit integer is not injective)
                let same = match r {
                    Variant::Int64(v) => v == x as i64 && x >= lo && x < hi1,
                    Variant::UInt64(v) => v == x as u64 && x >= lo && x < hi1,
                    _ => false, // narrower types cannot hold |x| >= 2^52
                };
                assert!(same, "C06.cast.rounds_to_nearest");
            }
        }
        None => {
            // no result only when a nearest integer is out of range
            let low_out = if lo - 0.5 < lo { x <= lo - 0.5 } else { x < lo };
            let high_out = x >= hi1 - 0.5;
            assert!(low_out || high_out, "C06.cast.no_result_only_when_rounded_value_out_of_range");
        }
    }
    // clearly out of range => no result
    let below = if lo - 1.0 < lo { x <= lo - 1.0 } else { x < lo };
    if below || x >= hi1 {
        assert!(is_empty(&r), "C06.cast.out_of_range_yields_no_result");
    }
    std::mem::forget(r);
}

/// `f64::round` / `f32::round` by contract: CBMC's bit-level model of round() made every float cast harness
/// exceed 300 s. The stub returns any value satisfying the specification of round-half-away-from-zero
/// (integral, within 0.5 of x, away from zero on ties; NaN and infinities are returned unchanged), so the
/// harness proves the code around the call against every behaviour the specification allows.
/// Assumption recorded in the evidence: std's round() meets this specification.
/// r is x rounded half away from zero, stated with exact operations only: r is integral and below 2^52 in
/// magnitude, so r - 0.5 and r + 0.5 are computed exactly (a formulation through (r - x).abs() is not exact:
/// 1.0 - 0.49999999999999994 rounds to 0.5)
fn is_round_of(r: f64, x: f64) -> bool {
    ((r as i64) as f64) == r
        && (r - 0.5 < x || (r - 0.5 == x && r > 0.0))
        && (x < r + 0.5 || (x == r + 0.5 && r < 0.0))
}
pub fn stub_round64(x: f64) -> f64 {
    if !x.is_finite() { return x; }
    const TWO52: f64 = 4503599627370496.0;
    if x.abs() >= TWO52 { return x; }
    let r: f64 = kani::any();
    kani::assume(r.is_finite() && r.abs() <= TWO52);
    kani::assume(is_round_of(r, x));
    r
}
pub fn stub_round32(x: f32) -> f32 {
    if !x.is_finite() { return x; }
    const TWO23: f32 = 8388608.0;
    if x.abs() >= TWO23 { return x; }
    let r: f32 = kani::any();
    kani::assume(r.is_finite() && r.abs() <= TWO23);
    kani::assume(is_round_of(r as f64, x as f64));
    r
}

// float -> integer casts: one harness per (source, target) pair (all eight targets in one harness exceed 400 s)
macro_rules! float_cast_harness {
    ($name:ident, $ty:ty, $variant:ident, $t:expr) => {
        #[kani::proof]
        #[kani::stub(<NodeId as FromStr>::from_str, stub_node_id_from_str)]
        #[kani::stub(<ExpandedNodeId as FromStr>::from_str, stub_expanded_node_id_from_str)]
        #[kani::stub(<Guid as FromStr>::from_str, stub_guid_from_str)]
        #[kani::stub(<DateTime as FromStr>::from_str, stub_date_time_from_str)]
        #[kani::stub(std::fmt::format, stub_format)]
        #[kani::stub(f64::round, stub_round64)]
        #[kani::stub(f32::round, stub_round32)]
        pub fn $name() {
            let x: $ty = kani::any();
            let src = Variant::$variant(x);
            check_cast_float(src.cast(type_id($t)), x as f64, $t);
            kani::cover!(x < -1.5 && x > -100.0, "C06.cover.negative_in_range");
            kani::cover!(x.is_nan(), "C06.cover.nan");
        }
    };
}
float_cast_harness!(c06_cast_double_i8, f64, Double, T::I8);
float_cast_harness!(c06_cast_double_u8, f64, Double, T::U8);
float_cast_harness!(c06_cast_double_i16, f64, Double, T::I16);
float_cast_harness!(c06_cast_double_u16, f64, Double, T::U16);
float_cast_harness!(c06_cast_double_i32, f64, Double, T::I32);
float_cast_harness!(c06_cast_double_u32, f64, Double, T::U32);
float_cast_harness!(c06_cast_double_i64, f64, Double, T::I64);
float_cast_harness!(c06_cast_double_u64, f64, Double, T::U64);
float_cast_harness!(c06_cast_float_i8, f32, Float, T::I8);
float_cast_harness!(c06_cast_float_u8, f32, Float, T::U8);
float_cast_harness!(c06_cast_float_i16, f32, Float, T::I16);
float_cast_harness!(c06_cast_float_u16, f32, Float, T::U16);
float_cast_harness!(c06_cast_float_i32, f32, Float, T::I32);
float_cast_harness!(c06_cast_float_u32, f32, Float, T::U32);
float_cast_harness!(c06_cast_float_i64, f32, Float, T::I64);
float_cast_harness!(c06_cast_float_u64, f32, Float, T::U64);

// integer -> integer casts: one (source, target) pair per harness (two widening targets in one harness exceed 200 s)
macro_rules! int_cast_harness {
    ($name:ident, $ty:ty, $variant:ident, $s:expr, $t:expr) => {
        #[kani::proof]
        #[kani::stub(<NodeId as FromStr>::from_str, stub_node_id_from_str)]
        #[kani::stub(<ExpandedNodeId as FromStr>::from_str, stub_expanded_node_id_from_str)]
        #[kani::stub(<Guid as FromStr>::from_str, stub_guid_from_str)]
        #[kani::stub(<DateTime as FromStr>::from_str, stub_date_time_from_str)]
        #[kani::stub(std::fmt::format, stub_format)]
        #[kani::unwind(2)]
        pub fn $name() {
            let x: $ty = kani::any();
            let src = Variant::$variant(x);
            check_cast_int(&src, $s, x as i128, $t);
        }
    };
}
int_cast_harness!(c06_cast_i8_u8, i8, SByte, T::I8, T::U8);
int_cast_harness!(c06_cast_i8_i16, i8, SByte, T::I8, T::I16);
int_cast_harness!(c06_cast_i8_u16, i8, SByte, T::I8, T::U16);
int_cast_harness!(c06_cast_i8_i32, i8, SByte, T::I8, T::I32);
int_cast_harness!(c06_cast_i8_u32, i8, SByte, T::I8, T::U32);
int_cast_harness!(c06_cast_i8_i64, i8, SByte, T::I8, T::I64);
int_cast_harness!(c06_cast_i8_u64, i8, SByte, T::I8, T::U64);
int_cast_harness!(c06_cast_u8_i8, u8, Byte, T::U8, T::I8);
int_cast_harness!(c06_cast_u8_i16, u8, Byte, T::U8, T::I16);
int_cast_harness!(c06_cast_u8_u16, u8, Byte, T::U8, T::U16);
int_cast_harness!(c06_cast_u8_i32, u8, Byte, T::U8, T::I32);
int_cast_harness!(c06_cast_u8_u32, u8, Byte, T::U8, T::U32);
int_cast_harness!(c06_cast_u8_i64, u8, Byte, T::U8, T::I64);
int_cast_harness!(c06_cast_u8_u64, u8, Byte, T::U8, T::U64);
int_cast_harness!(c06_cast_i16_i8, i16, Int16, T::I16, T::I8);
int_cast_harness!(c06_cast_i16_u8, i16, Int16, T::I16, T::U8);
int_cast_harness!(c06_cast_i16_u16, i16, Int16, T::I16, T::U16);
int_cast_harness!(c06_cast_i16_i32, i16, Int16, T::I16, T::I32);
int_cast_harness!(c06_cast_i16_u32, i16, Int16, T::I16, T::U32);
int_cast_harness!(c06_cast_i16_i64, i16, Int16, T::I16, T::I64);
int_cast_harness!(c06_cast_i16_u64, i16, Int16, T::I16, T::U64);
int_cast_harness!(c06_cast_u16_i8, u16, UInt16, T::U16, T::I8);
int_cast_harness!(c06_cast_u16_u8, u16, UInt16, T::U16, T::U8);
int_cast_harness!(c06_cast_u16_i16, u16, UInt16, T::U16, T::I16);
int_cast_harness!(c06_cast_u16_i32, u16, UInt16, T::U16, T::I32);
int_cast_harness!(c06_cast_u16_u32, u16, UInt16, T::U16, T::U32);
int_cast_harness!(c06_cast_u16_i64, u16, UInt16, T::U16, T::I64);
int_cast_harness!(c06_cast_u16_u64, u16, UInt16, T::U16, T::U64);
int_cast_harness!(c06_cast_i32_i8, i32, Int32, T::I32, T::I8);
int_cast_harness!(c06_cast_i32_u8, i32, Int32, T::I32, T::U8);
int_cast_harness!(c06_cast_i32_i16, i32, Int32, T::I32, T::I16);
int_cast_harness!(c06_cast_i32_u16, i32, Int32, T::I32, T::U16);
int_cast_harness!(c06_cast_i32_u32, i32, Int32, T::I32, T::U32);
int_cast_harness!(c06_cast_i32_i64, i32, Int32, T::I32, T::I64);
int_cast_harness!(c06_cast_i32_u64, i32, Int32, T::I32, T::U64);
int_cast_harness!(c06_cast_u32_i8, u32, UInt32, T::U32, T::I8);
int_cast_harness!(c06_cast_u32_u8, u32, UInt32, T::U32, T::U8);
int_cast_harness!(c06_cast_u32_i16, u32, UInt32, T::U32, T::I16);
int_cast_harness!(c06_cast_u32_u16, u32, UInt32, T::U32, T::U16);
int_cast_harness!(c06_cast_u32_i32, u32, UInt32, T::U32, T::I32);
int_cast_harness!(c06_cast_u32_i64, u32, UInt32, T::U32, T::I64);
int_cast_harness!(c06_cast_u32_u64, u32, UInt32, T::U32, T::U64);
int_cast_harness!(c06_cast_i64_i8, i64, Int64, T::I64, T::I8);
int_cast_harness!(c06_cast_i64_u8, i64, Int64, T::I64, T::U8);
int_cast_harness!(c06_cast_i64_i16, i64, Int64, T::I64, T::I16);
int_cast_harness!(c06_cast_i64_u16, i64, Int64, T::I64, T::U16);
int_cast_harness!(c06_cast_i64_i32, i64, Int64, T::I64, T::I32);
int_cast_harness!(c06_cast_i64_u32, i64, Int64, T::I64, T::U32);
int_cast_harness!(c06_cast_i64_u64, i64, Int64, T::I64, T::U64);
int_cast_harness!(c06_cast_u64_i8, u64, UInt64, T::U64, T::I8);
int_cast_harness!(c06_cast_u64_u8, u64, UInt64, T::U64, T::U8);
int_cast_harness!(c06_cast_u64_i16, u64, UInt64, T::U64, T::I16);
int_cast_harness!(c06_cast_u64_u16, u64, UInt64, T::U64, T::U16);
int_cast_harness!(c06_cast_u64_i32, u64, UInt64, T::U64, T::I32);
int_cast_harness!(c06_cast_u64_u32, u64, UInt64, T::U64, T::U32);
int_cast_harness!(c06_cast_u64_i64, u64, UInt64, T::U64, T::I64);
