"""C19 — Verus unit: the gate every session-bound service request passes, verbatim
(server/services/message_handler.rs): MessageHandler::{is_session_timed_out, is_session_activated,
validate_service_request, validate_activate_service_request}, with the repository's lock macros extracted as they are and
the locks themselves as environment (a lock gives access to the value it guards; single-threaded view).

Proved for every request and every state of the session table: the service action is called only if the request's
authentication token belongs to a registered session that is activated, bound to the connection's current secure channel
and not timed out; in every other case the answer is a ServiceFault with the status the property names
(BadSessionIdInvalid, BadSessionNotActivated) and the action is not called; the answer of an accepted request is the
action's answer."""
from extract import *

PID = 'C19'
SHORT = 'dispatch'

ENV = '''
pub struct NodeId { pub x: u64 }
#[derive(Clone, Copy)]
pub struct DateTimeUtc { pub ms: i64 }
pub struct TimeDelta { pub ms: i64 }
impl TimeDelta {
    pub fn num_milliseconds(&self) -> (r: i64) ensures r == self.ms { self.ms }
    // chrono: whole seconds, truncated towards zero
    #[verifier::external_body]
    pub fn num_seconds(&self) -> (r: i64) ensures r as int == (if self.ms >= 0 { self.ms as int / 1000 } else { -((-(self.ms as int)) / 1000) }) { unimplemented!() }
}
impl vstd::std_specs::ops::SubSpecImpl<DateTimeUtc> for DateTimeUtc {
    open spec fn obeys_sub_spec() -> bool { true }
    open spec fn sub_req(self, rhs: DateTimeUtc) -> bool { true }
    open spec fn sub_spec(self, rhs: DateTimeUtc) -> TimeDelta { TimeDelta { ms: (self.ms - rhs.ms) as i64 } }
}
impl std::ops::Sub<DateTimeUtc> for DateTimeUtc {
    type Output = TimeDelta;
    #[verifier::external_body]
    fn sub(self, rhs: DateTimeUtc) -> (r: TimeDelta) { unimplemented!() }
}
pub struct Utc;
impl Utc { #[verifier::external_body] pub fn now() -> (r: DateTimeUtc) { unimplemented!() } }
pub struct RequestHeader { pub authentication_token: NodeId, pub request_handle: u32 }
pub struct ServiceFault { pub status: StatusCode, pub request_handle: u32 }
impl ServiceFault {
    pub fn new(request_header: &RequestHeader, service_result: StatusCode) -> (r: ServiceFault)
        ensures r.status == service_result, r.request_handle == request_header.request_handle
    { ServiceFault { status: service_result, request_handle: request_header.request_handle } }
}
// only "is it a ServiceFault, and which" matters here (the real enum has one variant per service message)
pub enum SupportedMessage { ServiceFault(ServiceFault), Other(u64) }
impl vstd::std_specs::convert::FromSpecImpl<ServiceFault> for SupportedMessage {
    open spec fn obeys_from_spec() -> bool { true }
    open spec fn from_spec(v: ServiceFault) -> SupportedMessage { SupportedMessage::ServiceFault(v) }
}
impl From<ServiceFault> for SupportedMessage { fn from(v: ServiceFault) -> (r: SupportedMessage) { SupportedMessage::ServiceFault(v) } }
impl SupportedMessage {
    #[verifier::external_body]
    pub fn request_header(&self) -> (r: &RequestHeader) ensures *r == spec_request_header(*self) { unimplemented!() }
}
pub uninterp spec fn spec_request_header(m: SupportedMessage) -> RequestHeader;

// ---- the session as the gate sees it, and the locks (single-threaded view: a lock gives access to what it guards)
pub struct Session { pub activated: bool, pub secure_channel_id: u32, pub session_timeout: f64, pub last_service_request_timestamp: DateTimeUtc }
pub struct SecureChannel { pub secure_channel_id: u32 }
pub struct SessionManager { pub x: u64 }
pub struct RwLock<T> { pub v: T }
pub struct Arc<T> { pub v: T }
impl<T> Clone for Arc<T> {
    #[verifier::external_body]
    fn clone(&self) -> (r: Self) ensures r == *self { unimplemented!() }
}
pub struct SessionRead { pub s: Session }
pub struct SessionWrite { pub s: Session }
pub struct ChannelRead { pub c: SecureChannel }
pub struct ManagerRead { pub m: SessionManager }
impl Arc<RwLock<Session>> {
    #[verifier::external_body] pub fn read(&self) -> (r: SessionRead) ensures r.s == self.v.v { unimplemented!() }
    #[verifier::external_body] pub fn write(&self) -> (r: SessionWrite) ensures r.s == self.v.v { unimplemented!() }
}
impl Arc<RwLock<SecureChannel>> {
    #[verifier::external_body] pub fn read(&self) -> (r: ChannelRead) ensures r.c == self.v.v { unimplemented!() }
}
impl Arc<RwLock<SessionManager>> {
    #[verifier::external_body] pub fn read(&self) -> (r: ManagerRead) ensures r.m == self.v.v { unimplemented!() }
}
impl SessionRead {
    pub fn is_activated(&self) -> (r: bool) ensures r == self.s.activated { self.s.activated }
    pub fn secure_channel_id(&self) -> (r: u32) ensures r == self.s.secure_channel_id { self.s.secure_channel_id }
}
impl SessionWrite {
    pub fn last_service_request_timestamp(&self) -> (r: DateTimeUtc) ensures r == self.s.last_service_request_timestamp { self.s.last_service_request_timestamp }
    pub fn session_timeout(&self) -> (r: f64) ensures r == self.s.session_timeout { self.s.session_timeout }
    #[verifier::external_body] pub fn terminate_session(&mut self) ensures final(self).s.session_timeout == old(self).s.session_timeout { unimplemented!() }
    #[verifier::external_body] pub fn set_last_service_request_timestamp(&mut self, t: DateTimeUtc) { unimplemented!() }
}
impl ChannelRead { pub fn secure_channel_id(&self) -> (r: u32) ensures r == self.c.secure_channel_id { self.c.secure_channel_id } }
// SessionManager::find_session_by_token (iter().find over the session map): the session registered under that token, if any
pub uninterp spec fn spec_find(m: SessionManager, token: NodeId) -> Option<Arc<RwLock<Session>>>;
impl ManagerRead {
    #[verifier::external_body]
    pub fn find_session_by_token(&self, authentication_token: &NodeId) -> (r: Option<Arc<RwLock<Session>>>)
        ensures r == spec_find(self.m, *authentication_token)
    { unimplemented!() }
}
impl MessageHandler {
    // diagnostics counters only
    #[verifier::external_body]
    pub fn diag_service_response(session: Arc<RwLock<Session>>, authorized: bool, response: &SupportedMessage, diagnostic_key: &'static str) { unimplemented!() }
}

// ---- specification
// idle for `ms` milliseconds is NOT "longer than a positive time-out": `timeout > 0.0` is false, or `c > timeout` is false for the f64 c made from ms
// (whichever of the two tests the code makes first; the cast need not happen when the time-out is not positive)
pub open spec fn not_timed_out(ms: i64, timeout: f64) -> bool {
    vstd::std_specs::cmp::gt_ensures::<f64>(timeout, 0.0f64, false)
        || exists|c: f64| #[trigger] vstd::float::float_cast_spec(ms, c) && vstd::std_specs::cmp::gt_ensures::<f64>(c, timeout, false)
}
// the answer is a ServiceFault for that request (which status it carries is not part of the property)
pub open spec fn is_fault(m: SupportedMessage, h: RequestHeader) -> bool {
    m is ServiceFault && m->ServiceFault_0.request_handle == h.request_handle
}
pub open spec fn fault(h: RequestHeader, s: StatusCode) -> SupportedMessage {
    SupportedMessage::ServiceFault(ServiceFault { status: s, request_handle: h.request_handle })
}
// the gate of the property: activated and bound to this connection's secure channel (time-out: see is_session_timed_out)
pub open spec fn usable(s: Session, channel: SecureChannel) -> bool {
    s.activated && s.secure_channel_id == channel.secure_channel_id
}
'''

SPEC = {
    'is_session_timed_out': ('r', '''        // the time-out decision is a floating point comparison: stated over vstd's relations for `as f64` and `>` on f64
        ensures r is Err ==> is_fault(r->Err_0, *request_header),
            // "carried out only if .. not timed out": a session let through has not been idle for longer than its (positive) time-out
            r is Ok ==> not_timed_out((now.ms - session.v.v.last_service_request_timestamp.ms) as i64, session.v.v.session_timeout),'''),
    'is_session_activated': ('r', '''        ensures (r is Ok) ==> usable(session.v.v, self.secure_channel.v.v),      // "carried out only if .."
            r is Err ==> is_fault(r->Err_0, *request_header),'''),
    'validate_service_request': ('r', '''        requires forall|s: Arc<RwLock<Session>>, m: Arc<RwLock<SessionManager>>| action.requires((s, m)),
        ensures ({
            let h = spec_request_header(*request);
            match spec_find(self.session_manager.v.v, h.authentication_token) {
                // a token that belongs to no session of this server: refused, the action is not called
                None => r is Some && is_fault(r->Some_0, h),
                Some(session) => {
                    if !session.v.v.activated { r is Some && is_fault(r->Some_0, h) }
                    else if session.v.v.secure_channel_id != self.secure_channel.v.v.secure_channel_id { r is Some && is_fault(r->Some_0, h) }
                    else {
                        // activated and on its own channel: either it has timed out and is refused, or the action ran and its answer is the answer
                        (r is Some && is_fault(r->Some_0, h)) || action.ensures((session, self.session_manager), r)
                    }
                },
            }
        }),'''),
    'validate_activate_service_request': ('r', '''        requires forall|s: Arc<RwLock<Session>>| action.requires((s,)),
        ensures ({
            let h = spec_request_header(*request);
            match spec_find(self.session_manager.v.v, h.authentication_token) {
                None => r is Some && is_fault(r->Some_0, h),
                Some(session) => (r is Some && is_fault(r->Some_0, h))
                    || (exists|resp: SupportedMessage| action.ensures((session,), resp) && r == Some(resp)),
            }
        }),'''),
}

CANARY = '''
proof fn canary_dispatch(s: Session, c: SecureChannel, now: DateTimeUtc)
    requires usable(s, c), s.secure_channel_id == 5,
    ensures false,
{}
'''


def macro_def(src, name):
    t, _ = src.item(r'^macro_rules! ' + name + r'\b', name='macro ' + name, with_attrs=False)
    return strip_line_comments(t)


def build(manifest):
    mh = Src('server/services/message_handler.rs', manifest)
    lb = Src('lib.rs', manifest)
    f = {}
    rewrites = []
    float_note = []
    for n in ['is_session_timed_out', 'is_session_activated', 'validate_service_request', 'validate_activate_service_request']:
        t = norm_vis(clean_fn(mh.impl_fn(r'^impl MessageHandler \{', n)))
        t = re.sub(r'^(\s*)fn ', r'\1pub fn ', t, count=1) if not re.match(r'\s*pub ', t) else t
        if n == 'validate_service_request':
            # `response.map(|response| { diagnostics; response })`: response is the Option<SupportedMessage> computed above
            t = option_map_to_match(t, 'response', rewrites)
        clauses = SPEC[n][1]
        if n == 'is_session_timed_out' and (len(re.findall(r'\bas f64 >', t)) != 1 or re.search(r'f64 >=|<=? *[\w.()]+ as f64|<=? *[\w.()]*session_timeout', t)):
            # vstd specifies `>` on f64 as a relation of its own, unrelated to `<`, `<=`, `>=`: the time-out clause is stated over `>`, so it is
            # only claimed for a comparison spelled that way (anything else: clause not stated, reported as an assumption, never an alarm)
            clauses = '\n'.join(l for l in clauses.split('\n') if 'not_timed_out' not in l and 'carried out only if' not in l)
            float_note.append('C19: the time-out comparison of is_session_timed_out is not spelled `<ms> as f64 > <timeout>`: the clause '
                              '"a session let through is not timed out" is NOT stated on this tree (floating point relations other than `>` have no common specification)')
        f[n] = splice_contract(t, clauses, SPEC[n][0])
    types = mh.struct('MessageHandler', keep_fields=['secure_channel', 'session_manager'])
    a = Asm()
    a.add('use vstd::prelude::*;\n' + macro_def(lb, 'trace_read_lock') + '\n' + macro_def(lb, 'trace_write_lock') + '\nverus! {\nglobal size_of usize == 8;\n', 'prelude', 'env')
    a.add(norm_vis(types), 'types', 'env')
    a.add(status_code_struct(manifest), 'status codes', 'env')      # every status code of the real file (D14)
    a.add(ENV, 'env', 'env')
    a.add('impl MessageHandler {')
    for n in ['is_session_timed_out', 'is_session_activated', 'validate_activate_service_request', 'validate_service_request']:
        a.add(f[n], n, 'fn')
    a.add('}')
    add_proof_fns(a, CANARY, 'canary')
    a.add('}\nfn main() {}\n')
    return dict(asm=a, pid=PID, short=SHORT, clauses={k: v[1] for k, v in SPEC.items()}, twins={}, witness={},
                assumptions=['C19: single-threaded view of the locks — `trace_read_lock!(x)` / `trace_write_lock!(x)` (the repository\'s macros, '
                             'extracted as they are) give access to the value the lock guards at that moment; no other task changes the '
                             'session between the checks of one request (the handler runs one request of a connection at a time)',
                             'C19: SessionManager::find_session_by_token returns the session registered under the token (iter().find closure), '
                             'and CloseSession deregisters it (services/session.rs, not under contract); the dispatcher `handle_message` '
                             '(one match arm per service, which of the two gates each service goes through) is not under contract',
                             'C19: effects through a write guard (terminate_session on time-out, the last-request timestamp) are interior '
                             'mutation and not tracked; chrono subtraction is a difference of milliseconds',
                             'C19: floating point: `x as f64` and `>` on f64 are vstd\'s relations float_cast_spec / gt_ensures (uninterpreted: '
                             'IEEE semantics is not modelled); "timed out" means `ms as f64 > timeout` and `timeout > 0.0` both hold, which is '
                             'the code\'s own reading of the time-out in milliseconds'] + float_note)
