"""C20 — Verus unit: who ActivateSession lets in, verbatim (server/state.rs, server/config.rs):
ServerState::{authenticate_endpoint, authenticate_anonymous_token, authenticate_username_identity_token},
ServerEndpoint::{supports_anonymous, supports_user_token_id, supports_user_pass, supports_x509} (rewrite D23: `for id in
&self.user_token_ids` becomes the index loop it stands for) and ServerUserToken::{is_user_pass, is_x509}, over std's
String / &str with vstd's specifications, the repository's lock macro extracted as it is, and environment BTreeMap / BTreeSet.

Proved for every configuration (any endpoints, any user tokens), every identity token and every nonce:
an anonymous token is accepted only on an endpoint whose user token ids contain ANONYMOUS;
a user name token is accepted only if it carries a user name and the id returned is one of the endpoint's ids whose
configured user is a user-name/password user of that name, and the password supplied — the plain text, or the text
decrypted with the server key FOR THE NONCE PASSED IN — equals the configured one as UTF-8 bytes (empty when none is
configured); tokens of an unsupported kind and unknown endpoints are refused; the dispatcher hands every kind of token to
its own check with the endpoint found for (url, policy, mode), the request's signature and the nonce it was given."""
from extract import *

PID = 'C20'
SHORT = 'authenticate'

ENV = '''
// ---- std String / &str operations vstd does not specify (std semantics assumed)
pub assume_specification<'a> [<String as PartialEq<&str>>::eq] (a: &String, b: &&str) -> (r: bool) ensures r == (a@ == b@);
pub assume_specification<'a> [<String as PartialEq<&str>>::ne] (a: &String, b: &&str) -> (r: bool) ensures r == (a@ != b@);
pub assume_specification [<String as PartialEq<str>>::eq] (a: &String, b: &str) -> (r: bool) ensures r == (a@ == b@);
pub assume_specification [<String as PartialEq<str>>::ne] (a: &String, b: &str) -> (r: bool) ensures r == (a@ != b@);
pub assume_specification<'a> [<String as From<&str>>::from] (a: &str) -> (r: String) ensures r@ == a@;
// `&String != &str` goes through the blanket impl for references, which vstd specifies by String's eq_spec against str: the text is compared
#[verifier::external_body]
pub proof fn axiom_string_str_eq()
    ensures <String as vstd::std_specs::cmp::PartialEqSpec<str>>::obeys_eq_spec(),
        forall|a: String, b: &str| #[trigger] <String as vstd::std_specs::cmp::PartialEqSpec<str>>::eq_spec(&a, b) == (a@ == b@),
{}
// the UTF-8 encoding of a string: a function of its characters
pub uninterp spec fn utf8(s: Seq<char>) -> Seq<u8>;
pub assume_specification [std::string::String::as_bytes] (s: &std::string::String) -> (r: &[u8]) ensures r@ == utf8(s@);

// ---- OPC UA strings and byte strings: the text of a string (None for the null string)
#[verifier::external_body]
pub struct UAString { x: u64 }
impl UAString {
    pub uninterp spec fn opt(&self) -> Option<Seq<char>>;
    pub open spec fn text(&self) -> Seq<char> { match self.opt() { Some(s) => s, None => Seq::empty() } }
    // types/string.rs: as_ref gives "" for the null string, is_null is value.is_none()
    #[verifier::external_body]
    pub fn as_ref(&self) -> (r: &str) ensures r@ == self.text() { unimplemented!() }
    #[verifier::external_body]
    pub fn is_null(&self) -> (r: bool) ensures r == (self.opt() is None) { unimplemented!() }
    // is_empty: null or the empty text
    #[verifier::external_body]
    pub fn is_empty(&self) -> (r: bool) ensures r == (self.text().len() == 0) { unimplemented!() }
}
impl vstd::std_specs::cmp::PartialEqSpecImpl for UAString {
    open spec fn obeys_eq_spec() -> bool { true }
    open spec fn eq_spec(&self, other: &UAString) -> bool { self.opt() == other.opt() }
}
impl PartialEq for UAString {
    // #[derive(PartialEq)] on `value: Option<String>`
    #[verifier::external_body]
    fn eq(&self, other: &UAString) -> (r: bool) { unimplemented!() }
}
#[verifier::external_body]
pub struct ByteString { x: u64 }
impl View for ByteString { type V = Seq<u8>; uninterp spec fn view(&self) -> Seq<u8>; }
impl ByteString {
    #[verifier::external_body]
    pub fn as_ref(&self) -> (r: &[u8]) ensures r@ == self@ { unimplemented!() }
}
pub struct Thumbprint { pub x: u64 }
pub struct PrivateKey { pub x: u64 }
pub struct X509 { pub x: u64 }
pub struct SignatureData { pub x: u64 }
pub struct ExtensionObject { pub node_id: u64 }
pub struct DecodingOptions { pub x: u64 }
pub struct X509IdentityToken { pub policy_id: UAString, pub certificate_data: ByteString }
#[derive(Clone, Copy, PartialEq, Eq, Structural)]
pub struct SecurityPolicy { pub x: u8 }
#[derive(Clone, Copy, PartialEq, Eq, Structural)]
pub struct MessageSecurityMode { pub x: u8 }
pub struct ActivateSessionRequest { pub user_token_signature: SignatureData }

// ---- std BTreeSet<String> / BTreeMap<String, V>: the ids in iteration order (sorted, each once); map semantics
#[verifier::external_body]
#[verifier::reject_recursive_types(T)]
pub struct BTreeSet<T> { t: std::marker::PhantomData<T> }
impl BTreeSet<String> {
    pub uninterp spec fn ids(&self) -> Seq<Seq<char>>;
    // BTreeSet::contains (through Borrow<str>)
    #[verifier::external_body]
    pub fn contains(&self, id: &str) -> (r: bool) ensures r == self.ids().contains(id@) { unimplemented!() }
    #[verifier::external_body]
    pub fn is_empty(&self) -> (r: bool) ensures r == (self.ids().len() == 0) { unimplemented!() }
    #[verifier::external_body]
    pub fn len(&self) -> (r: usize) ensures r == self.ids().len() { unimplemented!() }
}
// `for id in &set` and `for (id, token) in &map` (rewrite D23)
pub open spec fn spec_iter_len(s: &BTreeSet<String>) -> nat { s.ids().len() }
pub open spec fn spec_kv_len<V>(m: &BTreeMap<String, V>) -> nat { m.keys().len() }
#[verifier::external_body]
pub fn kv_len<V>(m: &BTreeMap<String, V>) -> (r: usize) ensures r == m.keys().len() { unimplemented!() }
#[verifier::external_body]
pub fn kv_nth<V>(m: &BTreeMap<String, V>, i: usize) -> (r: (&String, &V)) requires i < m.keys().len(),
    ensures r.0@ == m.keys()[i as int], m.map().contains_key(r.0@), *r.1 == m.map()[r.0@] { unimplemented!() }
#[verifier::external_body]
pub fn iter_len(s: &BTreeSet<String>) -> (r: usize) ensures r == s.ids().len() { unimplemented!() }
#[verifier::external_body]
pub fn iter_nth(s: &BTreeSet<String>, i: usize) -> (r: &String) requires i < s.ids().len(), ensures r@ == s.ids()[i as int] { unimplemented!() }
#[verifier::external_body]
#[verifier::reject_recursive_types(K)]
#[verifier::reject_recursive_types(V)]
pub struct BTreeMap<K, V> { k: std::marker::PhantomData<K>, v: std::marker::PhantomData<V> }
impl<V> BTreeMap<String, V> {
    pub uninterp spec fn map(&self) -> Map<Seq<char>, V>;
    pub uninterp spec fn keys(&self) -> Seq<Seq<char>>;      // the keys in iteration order
    #[verifier::external_body]
    pub fn get(&self, k: &String) -> (r: Option<&V>)
        ensures match r { Some(v) => self.map().contains_key(k@) && *v == self.map()[k@], None => !self.map().contains_key(k@) }
    { unimplemented!() }
}

// ---- the rest of the server as this unit sees it
pub struct RwLock<T> { pub v: T }
pub struct Arc<T> { pub v: T }
impl Arc<RwLock<ServerConfig>> {
    // trace_read_lock!(x): access to the value the lock guards (single-threaded view)
    #[verifier::external_body]
    pub fn read(&self) -> (r: &ServerConfig) ensures *r == self.v.v { unimplemented!() }
}
pub uninterp spec fn spec_find_endpoint(config: ServerConfig, url: Seq<char>, policy: SecurityPolicy, mode: MessageSecurityMode) -> Option<ServerEndpoint>;
impl ServerConfig {
    // config.rs: iter().find over the endpoints (url match except host, policy, mode)
    #[verifier::external_body]
    pub fn find_endpoint(&self, endpoint_url: &str, security_policy: SecurityPolicy, security_mode: MessageSecurityMode) -> (r: Option<&ServerEndpoint>)
        ensures match r { Some(e) => spec_find_endpoint(*self, endpoint_url@, security_policy, security_mode) == Some(*e),
                          None => spec_find_endpoint(*self, endpoint_url@, security_policy, security_mode) is None }
    { unimplemented!() }
}
// IdentityToken::new: decoding of the extension object (a function of the object and the decoding options)
pub uninterp spec fn spec_identity_token(o: ExtensionObject) -> IdentityToken;
impl IdentityToken {
    #[verifier::external_body]
    pub fn new(o: &ExtensionObject, decoding_options: &DecodingOptions) -> (r: IdentityToken) ensures r == spec_identity_token(*o) { unimplemented!() }
}
// the password a token carries: its bytes as UTF-8 text, or what RSA decryption with the server key yields FOR THIS NONCE (C16)
pub uninterp spec fn spec_plain(token: UserNameIdentityToken) -> Result<Seq<char>, StatusCode>;
pub uninterp spec fn spec_decrypt(token: UserNameIdentityToken, nonce: Seq<u8>, key: PrivateKey) -> Result<Seq<char>, StatusCode>;
pub open spec fn same_text(r: Result<String, StatusCode>, s: Result<Seq<char>, StatusCode>) -> bool {
    match r { Ok(t) => s == Ok::<Seq<char>, StatusCode>(t@), Err(e) => s == Err::<Seq<char>, StatusCode>(e) }
}
impl UserNameIdentityToken {
    #[verifier::external_body]
    pub fn plaintext_password(&self) -> (r: Result<String, StatusCode>)
        requires self.encryption_algorithm.text().len() == 0,      // panics otherwise (service_types/impls.rs)
        ensures same_text(r, spec_plain(*self))
    { unimplemented!() }
}
#[verifier::external_body]
pub fn decrypt_user_identity_token_password(user_identity_token: &UserNameIdentityToken, server_nonce: &[u8], server_key: &PrivateKey) -> (r: Result<String, StatusCode>)
    ensures same_text(r, spec_decrypt(*user_identity_token, server_nonce@, *server_key))
{ unimplemented!() }
pub uninterp spec fn spec_user_pass_policy_id(endpoint: ServerEndpoint) -> Option<Seq<char>>;
pub uninterp spec fn spec_x509(state: ServerState, config: ServerConfig, endpoint: ServerEndpoint, token: X509IdentityToken,
    signature: SignatureData, certificate: Option<X509>, nonce: Seq<u8>) -> Result<Seq<char>, StatusCode>;
impl ServerState {
    #[verifier::external_body]
    pub fn decoding_options(&self) -> (r: DecodingOptions) { unimplemented!() }
    // match on the endpoint's password security policy -> one of the POLICY_ID_USER_PASS_* constants
    #[verifier::external_body]
    pub fn user_pass_security_policy_id(endpoint: &ServerEndpoint) -> (r: UAString) ensures r.opt() == spec_user_pass_policy_id(*endpoint) { unimplemented!() }
    // not under contract (iterator adapters and a closure with early exits): verification of the token signature and thumbprint lookup
    #[verifier::external_body]
    pub fn authenticate_x509_identity_token(&self, config: &ServerConfig, endpoint: &ServerEndpoint, token: &X509IdentityToken,
        user_token_signature: &SignatureData, server_certificate: &Option<X509>, server_nonce: &ByteString) -> (r: Result<String, StatusCode>)
        ensures same_text(r, spec_x509(*self, *config, *endpoint, *token, *user_token_signature, *server_certificate, server_nonce@))
    { unimplemented!() }
}

// ---- specification (from the property statement)
pub open spec fn is_user_pass_user(t: ServerUserToken) -> bool { t.x509 is None }
// the configured password equals the supplied one (as UTF-8 bytes); no configured password means the empty password
pub open spec fn password_ok(t: ServerUserToken, supplied: Seq<char>) -> bool {
    match t.pass { None => supplied.len() == 0, Some(p) => utf8(p@) =~= utf8(supplied) }
}
// `id` names a user-name/password user called `user`
pub open spec fn names_user(tokens: Map<Seq<char>, ServerUserToken>, id: Seq<char>, user: Seq<char>) -> bool {
    tokens.contains_key(id) && is_user_pass_user(tokens[id]) && tokens[id].user@ == user
}
// the password a user name token supplies, for the nonce the session currently has
pub open spec fn supplied_password(token: UserNameIdentityToken, key: Option<PrivateKey>, nonce: Seq<u8>) -> Result<Seq<char>, StatusCode> {
    if token.encryption_algorithm.opt() is None { spec_plain(token) }
    else { match key { Some(k) => spec_decrypt(token, nonce, k), None => Err(StatusCode::BadIdentityTokenInvalid) } }
}
pub open spec fn anonymous_ok(endpoint: ServerEndpoint, token: AnonymousIdentityToken, id: Seq<char>) -> bool {
    &&& endpoint.user_token_ids.ids().contains(ANONYMOUS_USER_TOKEN_ID@)
    &&& id == ANONYMOUS_USER_TOKEN_ID@
}
pub open spec fn user_name_ok(config: ServerConfig, endpoint: ServerEndpoint, token: UserNameIdentityToken, key: Option<PrivateKey>, nonce: Seq<u8>, id: Seq<char>) -> bool {
    let ids = endpoint.user_token_ids.ids();
    let tokens = config.user_tokens.map();
    &&& token.user_name.opt() is Some
    &&& supplied_password(token, key, nonce) is Ok
    &&& exists|k: int| 0 <= k < ids.len() && #[trigger] ids[k] == id
            && names_user(tokens, id, token.user_name.text())
            && password_ok(tokens[id], supplied_password(token, key, nonce)->Ok_0)
}
'''

SPEC = {
    'is_user_pass': ('r', '''        ensures r == is_user_pass_user(*self),'''),
    'is_x509': ('r', '''        ensures r == !is_user_pass_user(*self),'''),
    'supports_user_token_id': ('r', '''        ensures r == self.user_token_ids.ids().contains(id@),'''),
    'supports_anonymous': ('r', '''        ensures r == self.user_token_ids.ids().contains(ANONYMOUS_USER_TOKEN_ID@),'''),
    'supports_user_pass': ('r', '''        ensures r ==> (exists|k: int| 0 <= k < self.user_token_ids.ids().len() && #[trigger] self.user_token_ids.ids()[k] != ANONYMOUS_USER_TOKEN_ID@
                && server_tokens.map().contains_key(self.user_token_ids.ids()[k]) && is_user_pass_user(server_tokens.map()[self.user_token_ids.ids()[k]])),'''),
    'supports_x509': ('r', '''        ensures r ==> (exists|k: int| 0 <= k < self.user_token_ids.ids().len() && #[trigger] self.user_token_ids.ids()[k] != ANONYMOUS_USER_TOKEN_ID@
                && server_tokens.map().contains_key(self.user_token_ids.ids()[k]) && !is_user_pass_user(server_tokens.map()[self.user_token_ids.ids()[k]])),'''),
    'authenticate_anonymous_token': ('r', '''        ensures
            // anonymous access only where the endpoint allows it
            r is Ok ==> anonymous_ok(*endpoint, *token, r->Ok_0@),
'''),
    'authenticate_username_identity_token': ('r', '''        ensures
            // a user name is accepted only for a user configured for this endpoint whose password matches the one supplied
            // (plain, or decrypted for the nonce passed in)
            r is Ok ==> user_name_ok(*config, *endpoint, *token, *server_key, server_nonce@, r->Ok_0@),'''),
    'authenticate_endpoint': ('r', '''        ensures
            match spec_find_endpoint(self.config.v.v, endpoint_url@, security_policy, security_mode) {
                None => r is Err,
                Some(endpoint) => match spec_identity_token(*user_identity_token) {
                    IdentityToken::AnonymousIdentityToken(token) => r is Ok ==> anonymous_ok(endpoint, token, r->Ok_0@),
                    // the password is judged against the nonce this call was given
                    IdentityToken::UserNameIdentityToken(token) => r is Ok ==> user_name_ok(self.config.v.v, endpoint, token, self.server_pkey, server_nonce@, r->Ok_0@),
                    // X.509: the verdict of authenticate_x509_identity_token for this endpoint, the request's signature and this nonce
                    IdentityToken::X509IdentityToken(token) => same_text(r, spec_x509(*self, self.config.v.v, endpoint, token,
                        request.user_token_signature, self.server_certificate, server_nonce@)),
                    // anything else is refused
                    _ => r is Err,
                },
            },'''),
}

SUPPORTS_SPEC = '''
impl ServerEndpoint {
    pub open spec fn supports_user_pass_spec(&self, tokens: Map<Seq<char>, ServerUserToken>) -> bool {
        exists|k: int| 0 <= k < self.user_token_ids.ids().len() && #[trigger] self.user_token_ids.ids()[k] != ANONYMOUS_USER_TOKEN_ID@
            && tokens.contains_key(self.user_token_ids.ids()[k]) && is_user_pass_user(tokens[self.user_token_ids.ids()[k]])
    }
}
'''

LOOP_SUPPORTS = '''                invariant idx_user_token_id <= self.user_token_ids.ids().len(),
                    forall|k: int| 0 <= k < idx_user_token_id ==> !(#[trigger] self.user_token_ids.ids()[k] != ANONYMOUS_USER_TOKEN_ID@
                        && server_tokens.map().contains_key(self.user_token_ids.ids()[k]) && %sis_user_pass_user(server_tokens.map()[self.user_token_ids.ids()[k]])),
                decreases self.user_token_ids.ids().len() - idx_user_token_id,'''

LOOP_USER = '''                invariant idx_user_token_id <= endpoint.user_token_ids.ids().len(),
                decreases endpoint.user_token_ids.ids().len() - idx_user_token_id,'''

CANARY = '''
proof fn canary_authenticate(config: ServerConfig, endpoint: ServerEndpoint, token: UserNameIdentityToken, key: Option<PrivateKey>, nonce: Seq<u8>, id: Seq<char>)
    requires user_name_ok(config, endpoint, token, key, nonce, id), endpoint.user_token_ids.ids().len() == 2,
    ensures false,
{}
proof fn canary_anonymous(endpoint: ServerEndpoint, token: AnonymousIdentityToken, id: Seq<char>)
    requires anonymous_ok(endpoint, token, id),
    ensures false,
{}
'''


def macro_def(src, name):
    t, _ = src.item(r'^macro_rules! ' + name + r'\b', name='macro ' + name, with_attrs=False)
    return strip_line_comments(t)


def static_str(c):
    """consts of type &str are spelled &'static str inside verus! (the macro does not elide the lifetime)"""
    return re.sub(r": &str =", ": &'static str =", norm_vis(c))


def build(manifest):
    st = Src('server/state.rs', manifest)
    cf = Src('server/config.rs', manifest)
    it = Src('server/identity_token.rs', manifest)
    lb = Src('lib.rs', manifest)
    an = Src('types/service_types/anonymous_identity_token.rs', manifest)
    un = Src('types/service_types/user_name_identity_token.rs', manifest)
    rewrites = []
    f = {}

    def prep(t):
        t = norm_vis(clean_fn(t))
        t = re.sub(r'^(\s*)fn ', r'\1pub fn ', t, count=1) if not re.match(r'\s*pub ', t) else t
        # D8 path normalisation: the unit is one flat module
        t = t.replace('crate::server::config::', '').replace('user_identity::', '')
        return t
    for n in ['authenticate_endpoint', 'authenticate_anonymous_token', 'authenticate_username_identity_token']:
        # the search loop of the user name check needs no invariant of its own (loop_isolation(false)): the rewrite supplies `decreases`
        f[n] = splice_contract(ref_iter_to_index_loop(prep(st.impl_fn(r'^impl ServerState \{', n)), rewrites, with_decreases=True), SPEC[n][1], SPEC[n][0])
    for n in ['supports_anonymous', 'supports_user_token_id', 'supports_user_pass', 'supports_x509']:
        f[n] = splice_contract(ref_iter_to_index_loop(prep(cf.impl_fn(r'^impl ServerEndpoint \{', n)), rewrites), SPEC[n][1], SPEC[n][0])
    for n in ['is_user_pass', 'is_x509']:
        f[n] = splice_contract(prep(cf.impl_fn(r'^impl ServerUserToken \{', n)), SPEC[n][1], SPEC[n][0])
    # the loop of authenticate_username_identity_token sees what was established before it (password obtained, gates passed)
    f['authenticate_username_identity_token'] = '    #[verifier::loop_isolation(false)]\n' + f['authenticate_username_identity_token']
    if rewrites:
        f['supports_user_pass'] = splice_loop(f['supports_user_pass'], 0, LOOP_SUPPORTS % '')
        f['supports_x509'] = splice_loop(f['supports_x509'], 0, LOOP_SUPPORTS % '!')
        # at the head of each loop body (the line D23 generates): what `&String != &str` means
        for n in ['supports_user_pass', 'supports_x509']:
            f[n] = splice_at(f[n], r'^\s*let user_token_id = iter_nth\(', '                proof { axiom_string_str_eq(); }', before=False)
    # what `&String != &str` means, for the whole body of the user name check
    f['authenticate_username_identity_token'] = splice_body_start(f['authenticate_username_identity_token'], '        proof { axiom_string_str_eq(); }')
    types = '\n'.join([
        static_str(it.const('POLICY_ID_ANONYMOUS')), static_str(cf.const('ANONYMOUS_USER_TOKEN_ID')),
        it.enum('IdentityToken', derive=None),
        an.struct('AnonymousIdentityToken'), un.struct('UserNameIdentityToken'),
        cf.struct('ServerUserToken'), cf.struct('ServerEndpoint', keep_fields=['path', 'user_token_ids']),
        cf.struct('ServerConfig', keep_fields=['user_tokens']),
        st.struct('ServerState', keep_fields=['config', 'server_certificate', 'server_pkey']),
    ])
    a = Asm()
    a.add('use vstd::prelude::*;\n' + macro_def(lb, 'trace_read_lock') + '\nverus! {\nglobal size_of usize == 8;\n', 'prelude', 'env')
    a.add(norm_vis(types), 'types', 'env')
    a.add(status_code_struct(manifest), 'status codes', 'env')      # every status code of the real file (D14)
    a.add(ENV, 'env', 'env')
    a.add(SUPPORTS_SPEC, 'spec', 'env')
    a.add('impl ServerUserToken {')
    for n in ['is_user_pass', 'is_x509']:
        a.add(f[n], n, 'fn')
    a.add('}\nimpl ServerEndpoint {')
    for n in ['supports_user_token_id', 'supports_anonymous', 'supports_user_pass', 'supports_x509']:
        a.add(f[n], n, 'fn')
    a.add('}\nimpl ServerState {')
    for n in ['authenticate_anonymous_token', 'authenticate_username_identity_token', 'authenticate_endpoint']:
        a.add(f[n], n, 'fn')
    a.add('}')
    add_proof_fns(a, CANARY, 'canary')
    a.add('}\nfn main() {}\n')
    return dict(asm=a, pid=PID, short=SHORT, clauses={k: v[1] for k, v in SPEC.items()}, twins={}, witness={},
                assumptions=['C20: rewrite D23 — `for id in &endpoint.user_token_ids` is replaced by the index loop over the set\'s iteration order '
                             '(environment functions iter_len / iter_nth: the elements of the BTreeSet in order, each once)',
                             'C20: std String / &str comparisons, String::from(&str), String::as_bytes (UTF-8, a function of the text), '
                             'BTreeSet::contains and BTreeMap::get have their std meaning (assume_specification / environment types)',
                             'C20: not under contract, assumed to be functions of their arguments: ServerConfig::find_endpoint (iterator adapters), '
                             'IdentityToken::new (decoding), UserNameIdentityToken::plaintext_password, '
                             'crypto::user_identity::decrypt_user_identity_token_password (RSA; its plaintext layout and nonce check are C16), '
                             'ServerState::user_pass_security_policy_id, and ServerState::authenticate_x509_identity_token (iterator adapters and a '
                             'closure with early exits): the X.509 clause of the property is NOT decided, only that the dispatcher hands '
                             'the token, the request\'s signature and the nonce to that function',
                             'C20: that SessionService::activate_session passes the session\'s CURRENT nonce and replaces it afterwards '
                             '(services/session.rs, behind locks) is read off its text, not proved; single-threaded view of the config lock'])
