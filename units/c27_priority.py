"""C27 — Verus unit: the order in which Subscriptions::tick serves the subscriptions of a session, verbatim
(server/subscriptions/subscriptions.rs): the block `let subscription_ids = { .. };` of tick (extraction D25: the block becomes
the body of a function of its own), with the two `map(..).collect()` chains as the loops they stand for (rewrite D19) and
the sort closure given the specification that says what it computes (rewrite D24), plus the accessors
Subscription::{subscription_id, priority}.

Proved for every set of subscriptions (any number, any priorities, equal ones included): the list tick walks through
contains every subscription of the session exactly once, and a subscription never comes before one with a higher priority
value — so with fewer publish requests than subscriptions that have something to send, the higher priorities get them."""
from extract import *

PID = 'C27'
SHORT = 'priority'

ENV = '''
use std::cmp::Ordering;
use vstd::std_specs::cmp::OrdSpec;
// <[T]>::sort_by / sort_unstable_by (std): a permutation, ordered by the comparison closure
pub assume_specification<T, F: FnMut(&T, &T) -> Ordering> [<[T]>::sort_by] (v: &mut [T], compare: F)
    ensures final(v)@.to_multiset() == old(v)@.to_multiset(), final(v)@.len() == old(v)@.len(),
        forall|i: int, j: int| #![trigger final(v)@[i], final(v)@[j]] 0 <= i < j < final(v)@.len()
            ==> exists|o: Ordering| #[trigger] compare.ensures((&final(v)@[i], &final(v)@[j]), o) && o != Ordering::Greater;
pub assume_specification<T, F: FnMut(&T, &T) -> Ordering> [<[T]>::sort_unstable_by] (v: &mut [T], compare: F)
    ensures final(v)@.to_multiset() == old(v)@.to_multiset(), final(v)@.len() == old(v)@.len(),
        forall|i: int, j: int| #![trigger final(v)@[i], final(v)@[j]] 0 <= i < j < final(v)@.len()
            ==> exists|o: Ordering| #[trigger] compare.ensures((&final(v)@[i], &final(v)@[j]), o) && o != Ordering::Greater;
// u8::wrapping_neg (std): 0 - x modulo 256
pub trait SpecWrappingNeg: Sized { spec fn spec_wrapping_neg(self) -> Self; }
impl SpecWrappingNeg for u8 { open spec fn spec_wrapping_neg(self) -> u8 { if self == 0 { 0u8 } else { (256 - self as int) as u8 } } }
pub assume_specification [u8::wrapping_neg] (x: u8) -> (r: u8)
    ensures r == x.spec_wrapping_neg();
// std::collections::BTreeMap: its keys in iteration order (each once), and `values()` as the values in that order
#[verifier::external_body]
#[verifier::reject_recursive_types(K)]
#[verifier::reject_recursive_types(V)]
pub struct BTreeMap<K, V> { k: std::marker::PhantomData<K>, v: std::marker::PhantomData<V> }
impl<K, V> View for BTreeMap<K, V> {
    type V = Map<K, V>;
    uninterp spec fn view(&self) -> Map<K, V>;
}
impl<K, V> BTreeMap<K, V> {
    pub uninterp spec fn keys(&self) -> Seq<K>;
    #[verifier::external_body]
    pub proof fn keys_are_the_domain(&self)
        ensures self.keys().no_duplicates(), forall|k: K| self.keys().contains(k) == self@.contains_key(k),
    { unimplemented!() }
    #[verifier::external_body]
    pub fn values(&self) -> (r: Vec<&V>)
        ensures r@.len() == self.keys().len(), forall|i: int| 0 <= i < r@.len() ==> *(#[trigger] r@[i]) == self@[self.keys()[i]],
    { unimplemented!() }
}

// ---- specification
// the table is keyed by the subscription's own id (Subscriptions::insert is called with subscription.subscription_id())
pub open spec fn keyed_by_id(m: Map<u32, Subscription>) -> bool {
    forall|k: u32| #[trigger] m.contains_key(k) ==> m[k].subscription_id == k
}
'''

SPEC = {
    'subscription_id': ('r', '''        ensures r == self.subscription_id,'''),
    'priority': ('r', '''        ensures r == self.priority,'''),
    'subscription_ids': ('r', '''        requires keyed_by_id(self.subscriptions@),
        ensures
            // every subscription of the session is served, once
            r@.len() == self.subscriptions.keys().len(), r@.no_duplicates(),
            forall|k: u32| r@.contains(k) == self.subscriptions@.contains_key(k),
            // and never before one with a higher priority value
            forall|i: int, j: int| 0 <= i < j < r@.len() ==>
                self.subscriptions@[#[trigger] r@[i]].priority >= self.subscriptions@[#[trigger] r@[j]].priority,'''),
}

LOOP0 = '''                    invariant idx_0 <= src_0@.len(), coll_0@.len() == idx_0, src_0@.len() == self.subscriptions.keys().len(),
                        forall|i: int| 0 <= i < src_0@.len() ==> *(#[trigger] src_0@[i]) == self.subscriptions@[self.subscriptions.keys()[i]],
                        forall|k: int| 0 <= k < idx_0 ==> #[trigger] coll_0@[k] == (src_0@[k].subscription_id, src_0@[k].priority),
                    decreases src_0@.len() - idx_0,'''
LOOP1 = '''                    invariant idx_1 <= subscription_priority@.len(), coll_1@.len() == idx_1,
                        forall|k: int| 0 <= k < idx_1 ==> #[trigger] coll_1@[k] == subscription_priority@[k].0,
                    decreases subscription_priority@.len() - idx_1,'''

# ghost bookkeeping, anchored on lines the rewrites generate (not on the repository's text)
GHOST_AFTER_FIRST = '''            let ghost sp0 = subscription_priority@;
            proof {
                self.subscriptions.keys_are_the_domain();
                assert forall|k: int| 0 <= k < sp0.len() implies #[trigger] sp0[k] == (self.subscriptions.keys()[k], self.subscriptions@[self.subscriptions.keys()[k]].priority) by {
                    assert(self.subscriptions.keys().contains(self.subscriptions.keys()[k]));
                }
            }'''
GHOST_BEFORE_RESULT = '''                proof {
                    self.subscriptions.keys_are_the_domain();
                    lemma_sorted_pairs(self.subscriptions@, self.subscriptions.keys(), sp0, subscription_priority@, coll_1@);
                }'''

LEMMAS = '''
// the pairs (id, priority) made from the table, permuted, and projected to the ids: a permutation of the keys, and the
// priority found next to an id is the priority of that subscription
proof fn lemma_sorted_pairs(m: Map<u32, Subscription>, keys: Seq<u32>, sp0: Seq<(u32, u8)>, sp: Seq<(u32, u8)>, ids: Seq<u32>)
    requires keys.no_duplicates(), forall|k: u32| keys.contains(k) == m.contains_key(k),
        sp0.len() == keys.len(), forall|k: int| 0 <= k < sp0.len() ==> #[trigger] sp0[k] == (keys[k], m[keys[k]].priority),
        sp.to_multiset() == sp0.to_multiset(), sp.len() == sp0.len(),
        ids.len() == sp.len(), forall|k: int| 0 <= k < ids.len() ==> #[trigger] ids[k] == sp[k].0,
    ensures ids.len() == keys.len(), ids.no_duplicates(),
        forall|k: u32| ids.contains(k) == m.contains_key(k),
        forall|i: int| 0 <= i < ids.len() ==> sp[i].1 == m[#[trigger] ids[i]].priority,
{
    broadcast use vstd::seq_lib::group_to_multiset_ensures;
    // every sorted pair is one of the original pairs, and the other way round
    assert forall|i: int| 0 <= i < sp.len() implies sp0.contains(#[trigger] sp[i]) by {
        assert(sp.contains(sp[i]));
        assert(sp.to_multiset().count(sp[i]) > 0);
    }
    assert forall|i: int| 0 <= i < sp0.len() implies sp.contains(#[trigger] sp0[i]) by {
        assert(sp0.contains(sp0[i]));
        assert(sp0.to_multiset().count(sp0[i]) > 0);
    }
    assert forall|i: int| 0 <= i < ids.len() implies sp[i].1 == m[#[trigger] ids[i]].priority && keys.contains(ids[i]) by {
        assert(sp0.contains(sp[i]));
        let k = choose|k: int| 0 <= k < sp0.len() && sp0[k] == sp[i];
        assert(sp0[k] == (keys[k], m[keys[k]].priority));
    }
    assert forall|k: u32| m.contains_key(k) implies ids.contains(k) by {
        assert(keys.contains(k));
        let a = choose|a: int| 0 <= a < keys.len() && keys[a] == k;
        assert(sp.contains(sp0[a]));
        let i = choose|i: int| 0 <= i < sp.len() && sp[i] == sp0[a];
        assert(ids[i] == k);
    }
    // no id twice: the original pairs are pairwise different (different keys), so each occurs once in the permutation
    assert forall|i: int, j: int| 0 <= i < j < ids.len() implies ids[i] != ids[j] by {
        if ids[i] == ids[j] {
            assert(sp[i] == sp[j]);                    // same id => same priority (both that subscription's)
            // sp[i] occurs twice in sp but only once in sp0
            assert(sp0.no_duplicates()) by {
                assert forall|a: int, b: int| 0 <= a < b < sp0.len() implies sp0[a] != sp0[b] by { assert(keys[a] != keys[b]); }
            }
            sp0.lemma_multiset_has_no_duplicates();
            lemma_twice(sp, i, j);
        }
    }
}
proof fn lemma_twice(s: Seq<(u32, u8)>, i: int, j: int)
    requires 0 <= i < j < s.len(), s[i] == s[j],
    ensures s.to_multiset().count(s[i]) >= 2,
    decreases s.len(),
{
    broadcast use vstd::seq_lib::group_to_multiset_ensures;
    let t = s.drop_last();
    assert(s =~= t.push(s.last()));
    if j == s.len() - 1 {
        assert(t.contains(s[i])) by { assert(t[i] == s[i]); }
        assert(t.to_multiset().count(s[i]) > 0);
    } else {
        lemma_twice(t, i, j);
    }
}
'''

CANARY = '''
proof fn canary_priority(m: Map<u32, Subscription>)
    requires keyed_by_id(m), m.contains_key(3u32), m.contains_key(4u32), m[3u32].priority > m[4u32].priority,
    ensures false,
{}
'''


def build(manifest):
    su = Src('server/subscriptions/subscriptions.rs', manifest)
    sb = Src('server/subscriptions/subscription.rs', manifest)
    rewrites = []
    tick = norm_vis(clean_fn(su.impl_fn(r'^impl Subscriptions \{', 'tick')))
    block = let_block(tick, 'subscription_ids')
    block = sort_closure_spec(map_collect_expr_to_loop(block, rewrites), rewrites)
    f = '    pub fn subscription_ids(&self) -> Vec<u32>\n    {' + block + '}\n'
    f = splice_contract(f, SPEC['subscription_ids'][1], 'r')
    if any(r.startswith('D19') for r in rewrites):
        f = splice_loop(f, 0, LOOP0)
        f = splice_loop(f, 1, LOOP1)
        f = splice_at(f, r'^\s*coll_0 \};', GHOST_AFTER_FIRST, before=False)
        f = splice_at(f, r'^\s*coll_1 \}', GHOST_BEFORE_RESULT, before=True)
    acc = {}
    for n in ['subscription_id', 'priority']:
        acc[n] = splice_contract(norm_vis(clean_fn(sb.impl_fn(r'^impl Subscription \{', n))), SPEC[n][1], SPEC[n][0])
    types = '\n'.join([sb.struct('Subscription', keep_fields=['subscription_id', 'priority']),
                       su.struct('Subscriptions', keep_fields=['subscriptions'])])
    a = Asm()
    a.add('#![feature(allocator_api)]\nuse vstd::prelude::*;\nverus! {\nglobal size_of usize == 8;\n', 'prelude', 'env')
    a.add(norm_vis(types), 'types', 'env')
    a.add(ENV, 'env', 'env')
    a.add('impl Subscription {')
    for n in ['subscription_id', 'priority']:
        a.add(acc[n], n, 'fn')
    a.add('}\nimpl Subscriptions {')
    a.add(f, 'tick.subscription_ids', 'fn')
    a.add('}')
    add_proof_fns(a, LEMMAS, 'lemma')
    add_proof_fns(a, CANARY, 'canary')
    a.add('}\nfn main() {}\n')
    return dict(asm=a, pid=PID, short=SHORT, clauses={k: v[1] for k, v in SPEC.items()}, twins={}, witness={},
                verus_args=['--triggers-mode', 'silent'],
                assumptions=['C27: extraction D25 — the block of `let subscription_ids = { .. };` in Subscriptions::tick is verified as the body of a '
                             'function of its own (it reads only `self.subscriptions`); that tick then walks this list front to back, handing the queued '
                             'publish requests to each subscription in turn (`for subscription_id in subscription_ids`, pop_back of the request queue), '
                             'is read off the text of tick, not proved',
                             'C27: rewrites D19 (both `map(..).collect()` chains become the loops they stand for; BTreeMap::values() as the values in key '
                             'order) and D24 (the sort closure is given the specification `result == <its own expression>`, the closure itself unchanged)',
                             'C27: <[T]>::sort_by / sort_unstable_by return a permutation ordered by the closure; u8::cmp is vstd\'s specification; '
                             'the subscription table is keyed by each subscription\'s own id (Subscriptions::insert, one line)'])
