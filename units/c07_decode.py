"""C07 (reassembly) — Verus unit: Chunker::decode, verbatim except for rewrite D15 (the two loops over `chunks.iter()`
become the index loops they stand for).

Proved for any number of chunks: no panic (offset arithmetic, slices), chunks are accepted only if every chunk but the
last is Intermediate and the last is Final, and the bytes handed to the message decoder are exactly the chunk bodies
concatenated in order — so the decoded message is a function of that concatenation only."""
from extract import *

PID = 'C07'
SHORT = 'decode'

ENV = '''
pub struct DecodingOptions { pub x: u8 }
pub struct SecureChannel { pub decoding_options: DecodingOptions }
impl SecureChannel {
    #[verifier::external_body]
    pub fn decoding_options(&self) -> (r: DecodingOptions) ensures r == self.decoding_options { unimplemented!() }
}
pub struct ChunkInfo { pub message_header: MessageChunkHeader, pub body_offset: usize, pub body_length: usize }
pub struct MessageChunk { pub data: Vec<u8> }
// (is_final, body offset, message type) of a chunk, or None when its headers do not decode: functions of its bytes
pub uninterp spec fn spec_hdr(c: MessageChunk) -> Option<(MessageIsFinalType, usize, MessageChunkType)>;
impl MessageChunk {
    // ChunkInfo::new: after the three headers "all of what follows is the message body":
    // body_length = data.len() - body_offset, with the offset inside the chunk
    #[verifier::external_body]
    pub fn chunk_info(&self, secure_channel: &SecureChannel) -> (r: Result<ChunkInfo, StatusCode>)
        ensures (r is Ok) == (spec_hdr(*self) is Some),
            r is Ok ==> spec_hdr(*self) == Some((r->Ok_0.message_header.is_final, r->Ok_0.body_offset, r->Ok_0.message_header.message_type))
                && r->Ok_0.body_offset <= self.data@.len() && r->Ok_0.body_length == self.data@.len() - r->Ok_0.body_offset
                && self.data@.len() <= usize::MAX,     // a Vec's length is a usize
    { unimplemented!() }
}
// ---- the message decoders (generic over S: Read, outside the dialect): deterministic functions of the stream contents
pub struct NodeId { pub x: u64 }
pub struct ObjectId { pub x: u32 }
// only "Invalid" is distinguished here (the real enum has one variant per service message)
pub enum SupportedMessage { Invalid(ObjectId), Message(u64) }
pub struct Cursor { pub data: Vec<u8>, pub pos: u64 }
impl Cursor {
    pub fn new(data: Vec<u8>) -> (r: Cursor) ensures r.data@ == data@, r.pos == 0 { Cursor { data, pos: 0 } }
}
pub uninterp spec fn spec_node_id(data: Seq<u8>) -> Result<(NodeId, u64), StatusCode>;
pub uninterp spec fn spec_object_id(n: NodeId, expected: Option<NodeId>) -> Result<ObjectId, StatusCode>;
pub uninterp spec fn spec_message(data: Seq<u8>, pos: u64, o: ObjectId) -> Result<SupportedMessage, StatusCode>;
impl NodeId {
    #[verifier::external_body]
    pub fn decode(stream: &mut Cursor, o: &DecodingOptions) -> (r: Result<NodeId, StatusCode>)
        requires old(stream).pos == 0,
        ensures final(stream).data@ == old(stream).data@,
            match spec_node_id(old(stream).data@) { Ok((n, p)) => r == Ok::<NodeId, StatusCode>(n) && final(stream).pos == p, Err(e) => r == Err::<NodeId, StatusCode>(e) },
    { unimplemented!() }
}
impl SupportedMessage {
    #[verifier::external_body]
    pub fn decode_by_object_id(stream: &mut Cursor, object_id: ObjectId, o: &DecodingOptions) -> (r: Result<SupportedMessage, StatusCode>)
        ensures r == spec_message(old(stream).data@, old(stream).pos, object_id),
    { unimplemented!() }
}
impl Chunker {
    // Chunker::object_id_from_node_id (map / map_err closures): a function of the two node ids
    #[verifier::external_body]
    pub fn object_id_from_node_id(node_id: NodeId, expected_node_id: Option<NodeId>) -> (r: Result<ObjectId, StatusCode>)
        ensures r == spec_object_id(node_id, expected_node_id),
    { unimplemented!() }
}

// ---- specification
pub open spec fn body(c: MessageChunk) -> Seq<u8> { c.data@.subrange(spec_hdr(c)->Some_0.1 as int, c.data@.len() as int) }
// the bodies of the chunks, concatenated in order
pub open spec fn bodies(cs: Seq<MessageChunk>) -> Seq<u8>
    decreases cs.len()
{
    if cs.len() == 0 { Seq::empty() } else { bodies(cs.drop_last()) + body(cs.last()) }
}
pub open spec fn total_len(cs: Seq<MessageChunk>) -> int
    decreases cs.len()
{
    if cs.len() == 0 { 0 } else { total_len(cs.drop_last()) + cs.last().data@.len() }
}
// every chunk decodes, every chunk but the last is Intermediate, the last is Final
pub open spec fn flags_ok(cs: Seq<MessageChunk>) -> bool {
    forall|i: int| 0 <= i < cs.len() ==> spec_hdr(#[trigger] cs[i]) is Some
        && spec_hdr(cs[i])->Some_0.0 == (if i == cs.len() - 1 { MessageIsFinalType::Final } else { MessageIsFinalType::Intermediate })
}
// all the chunks carry the message type of the first
pub open spec fn one_type(cs: Seq<MessageChunk>) -> bool {
    forall|i: int| 0 <= i < cs.len() ==> spec_hdr(#[trigger] cs[i])->Some_0.2 == spec_hdr(cs[0])->Some_0.2
}
// what the tail of decode computes from the reassembled bytes
pub open spec fn message_of(data: Seq<u8>, expected: Option<NodeId>) -> Result<SupportedMessage, StatusCode> {
    match spec_node_id(data) {
        Err(e) => Err(e),
        Ok((n, p)) => match spec_object_id(n, expected) {
            Err(e) => Err(e),
            Ok(o) => match spec_message(data, p, o) {
                Ok(m) => if m is Invalid { Err(StatusCode::BadServiceUnsupported) } else { Ok(m) },
                Err(_) => Err(StatusCode::BadServiceUnsupported),
            },
        },
    }
}
'''

SPEC = {
    'decode': ('r', '''        requires total_len(chunks@) <= usize::MAX,     // the chunks are in memory
        ensures
            // accepted only with the final flag on the last chunk and on no other, and then the message is decoded from exactly
            // the bodies concatenated in order
            r is Ok ==> flags_ok(chunks@) && r == message_of(bodies(chunks@), expected_node_id),
            // chunks as a sender makes them (unit c07_encode: final flag on the last one only, one message type) are not refused
            // for their form
            flags_ok(chunks@) && one_type(chunks@) ==> r == message_of(bodies(chunks@), expected_node_id),'''),
}

LEMMAS = '''
proof fn lemma_bodies_step(cs: Seq<MessageChunk>, i: int)
    requires 0 <= i < cs.len(),
    ensures bodies(cs.subrange(0, i + 1)) == bodies(cs.subrange(0, i)) + body(cs[i]),
        total_len(cs.subrange(0, i + 1)) == total_len(cs.subrange(0, i)) + cs[i].data@.len(),
{
    assert(cs.subrange(0, i + 1).drop_last() =~= cs.subrange(0, i));
}
proof fn lemma_total_monotone(cs: Seq<MessageChunk>, i: int)
    requires 0 <= i <= cs.len(),
    ensures 0 <= total_len(cs.subrange(0, i)) <= total_len(cs),
    decreases cs.len() - i,
{
    if i < cs.len() {
        lemma_bodies_step(cs, i);
        lemma_total_monotone(cs, i + 1);
    } else {
        assert(cs.subrange(0, i) =~= cs);
    }
    lemma_total_nonneg(cs.subrange(0, i));
}
proof fn lemma_total_nonneg(cs: Seq<MessageChunk>)
    ensures total_len(cs) >= 0,
    decreases cs.len(),
{
    if cs.len() > 0 { lemma_total_nonneg(cs.drop_last()); }
}
// reassembly of a single chunk is its body; of two messages' chunk lists, the concatenation
proof fn lemma_bodies_concat(a: Seq<MessageChunk>, b: Seq<MessageChunk>)
    ensures bodies(a + b) == bodies(a) + bodies(b),
    decreases b.len(),
{
    if b.len() == 0 {
        assert(a + b =~= a);
        assert(bodies(a) + bodies(b) =~= bodies(a));
    } else {
        lemma_bodies_concat(a, b.drop_last());
        assert((a + b).drop_last() =~= a + b.drop_last());
        assert((a + b).last() == b.last());
        assert(bodies(a) + (bodies(b.drop_last()) + body(b.last())) =~= (bodies(a) + bodies(b.drop_last())) + body(b.last()));
    }
}
'''

CANARY = '''
proof fn canary_decode(cs: Seq<MessageChunk>)
    requires flags_ok(cs), cs.len() == 3, total_len(cs) <= 100000,
    ensures false,
{}
'''


def build(manifest):
    ck = Src('core/comms/chunker.rs', manifest)
    mc = Src('core/comms/message_chunk.rs', manifest)
    rewrites = []
    f = norm_vis(clean_fn(ck.impl_fn(r'^impl Chunker \{', 'decode')))
    f = iter_to_index_loop(enumerate_to_index_loop(f, rewrites), rewrites)
    f = splice_contract(f, SPEC['decode'][1], 'r')
    f = splice_loop(f, 0, '''            invariant 0 <= i <= chunks@.len(), total_len(chunks@) <= usize::MAX,
                data_size <= total_len(chunks@.subrange(0, i as int)),
                forall|k: int| 0 <= k < i ==> spec_hdr(#[trigger] chunks@[k]) is Some
                    && spec_hdr(chunks@[k])->Some_0.0 == (if k == chunks@.len() - 1 { MessageIsFinalType::Final } else { MessageIsFinalType::Intermediate }),
            decreases chunks@.len() - i,''')
    f = splice_loop(f, 1, '''            invariant 0 <= idx_chunk <= chunks@.len(), flags_ok(chunks@),
                data@ == bodies(chunks@.subrange(0, idx_chunk as int)),
            decreases chunks@.len() - idx_chunk,''')
    # ghost hints: one step of the two folds
    f = splice_at(f, r'^\s*data_size \+=', '            proof { lemma_bodies_step(chunks@, i as int); lemma_total_monotone(chunks@, i as int + 1); }', before=True)
    f = splice_at(f, r'^\s*idx_chunk \+= 1;', '            proof { lemma_bodies_step(chunks@, idx_chunk as int); }', before=True)
    f = splice_at(f, r'^\s*let mut data = Cursor::new\(data\);', '        proof { assert(chunks@.subrange(0, chunks@.len() as int) =~= chunks@); }', before=True)
    a = Asm()
    a.add('use vstd::prelude::*;\nverus! {\nglobal size_of usize == 8;\n', 'prelude', 'env')
    a.add(norm_vis('\n'.join([mc.enum('MessageChunkType'), mc.enum('MessageIsFinalType'), mc.struct('MessageChunkHeader')])), 'types', 'env')
    a.add(status_code_struct(manifest), 'status codes', 'env')      # every status code of the real file (D14)
    a.add('pub struct Chunker;\n' + ENV, 'env', 'env')
    a.add('impl Chunker {')
    a.add(f, 'decode', 'fn')
    a.add('}')
    add_proof_fns(a, LEMMAS, 'lemma')
    add_proof_fns(a, CANARY, 'canary')
    a.add('}\nfn main() {}\n')
    return dict(asm=a, pid=PID, short=SHORT, clauses={k: v[1] for k, v in SPEC.items()}, twins={}, witness={},
                assumptions=['C07: rewrite D15 — the loops `for (i, chunk) in chunks.iter().enumerate()` and `for chunk in chunks.iter()` of '
                             'Chunker::decode are replaced by the index loops they stand for',
                             'C07: ChunkInfo::new yields body_offset <= data.len() and body_length = data.len() - body_offset ("all of what '
                             'follows is the message body"), and is a function of the chunk; NodeId::decode, object_id_from_node_id and '
                             'SupportedMessage::decode_by_object_id are deterministic functions of the stream contents (generic decoders)'])
