"""C26 — Verus unit: the three places where subscription processing turns a difference of timestamps into a
std Duration, verbatim: Subscription::test_and_set_publishing_interval_elapsed (subscription.rs),
MonitoredItem::tick (monitored_item.rs) and Subscriptions::expire_stale_publish_requests (subscriptions.rs, rewrite D18:
the `retain` closure becomes the in-place filter loop it stands for), with chrono as environment: a difference of two
timestamps is a signed number of milliseconds and `to_std()` fails exactly when it is negative.

Proved for every pair of timestamps (client supplied, or a wall clock that moved backwards): no panic; every BadTimeout
fault that expire_stale_publish_requests adds to the response queue answers a queued request whose timeout has elapsed since
its timestamp (non-negative part of now - timestamp above the timeout). The contract says "only after", as the property does:
the first two functions carry no postcondition beyond panic freedom, and the invariant of the filter loop speaks of what is
left to look at and of the answers made so far, not of which requests were kept."""
from extract import *

PID = 'C26'
SHORT = 'clock'

ENV = '''
use std::collections::VecDeque;
// ---- chrono / std::time as far as these functions use them
// chrono::DateTime<Utc>: a point in time, in milliseconds
#[derive(Clone, Copy)]
pub struct DateTimeUtc { pub ms: i64 }
// chrono::Duration (TimeDelta): a signed number of milliseconds
pub struct TimeDelta { pub ms: i64 }
#[derive(Debug)]
pub struct OutOfRangeError { pub x: u8 }
// std::time::Duration: a non-negative number of microseconds
#[derive(Clone, Copy)]
pub struct Duration { pub us: u64 }
impl DateTimeUtc {
    // two dates chrono can represent are less than 2^63 ms apart
    #[verifier::external_body]
    pub fn signed_duration_since(self, rhs: DateTimeUtc) -> (r: TimeDelta) ensures r.ms as int == self.ms as int - rhs.ms as int { unimplemented!() }
}
impl TimeDelta {
    pub fn num_milliseconds(&self) -> (r: i64) ensures r == self.ms { self.ms }
    #[verifier::external_body]
    pub fn num_seconds(&self) -> (r: i64) ensures self.ms >= 0 ==> r == self.ms / 1000, self.ms < 0 ==> r <= 0 { unimplemented!() }
    // chrono: to_std fails exactly for a negative duration
    #[verifier::external_body]
    pub fn to_std(&self) -> (r: Result<Duration, OutOfRangeError>)
        ensures (r is Ok) == (self.ms >= 0), r is Ok ==> r->Ok_0.us as int == self.ms as int * 1000,
    { unimplemented!() }
}
impl Default for Duration {
    fn default() -> (r: Duration) ensures r.us == 0 { Duration { us: 0 } }
}
impl Duration {
    #[verifier::external_body]
    pub fn from_millis(ms: u64) -> (r: Duration) ensures r.us as int == ms as int * 1000 { unimplemented!() }
}
impl vstd::std_specs::cmp::PartialEqSpecImpl for Duration {
    open spec fn obeys_eq_spec() -> bool { true }
    open spec fn eq_spec(&self, other: &Duration) -> bool { self.us == other.us }
}
impl PartialEq for Duration { #[verifier::external_body] fn eq(&self, other: &Duration) -> (r: bool) { unimplemented!() } }
impl vstd::std_specs::cmp::PartialOrdSpecImpl for Duration {
    open spec fn obeys_partial_cmp_spec() -> bool { true }
    open spec fn partial_cmp_spec(&self, other: &Duration) -> Option<core::cmp::Ordering> {
        if self.us < other.us { Some(core::cmp::Ordering::Less) } else if self.us == other.us { Some(core::cmp::Ordering::Equal) } else { Some(core::cmp::Ordering::Greater) }
    }
}
impl PartialOrd for Duration { #[verifier::external_body] fn partial_cmp(&self, other: &Duration) -> (r: Option<core::cmp::Ordering>) { unimplemented!() } }
pub assume_specification<T: Default, E> [Result::<T, E>::unwrap_or_default] (r: Result<T, E>) -> (v: T)
    ensures match r { Ok(t) => v == t, Err(_) => call_ensures(T::default, (), v) };
// server::subscriptions::duration_from_ms: an OPC UA Duration (f64 milliseconds) as a std Duration
pub uninterp spec fn spec_duration_from_ms(d: f64) -> Duration;
#[verifier::external_body]
pub fn duration_from_ms(d: f64) -> (r: Duration) ensures r == spec_duration_from_ms(d) { unimplemented!() }

// ---- messages
#[derive(Clone, Copy)]
pub struct DateTime { pub ms: i64 }
impl DateTime {
    // From<DateTime> for DateTimeUtc
    pub fn into(self) -> (r: DateTimeUtc) ensures r.ms == self.ms { DateTimeUtc { ms: self.ms } }
    #[verifier::external_body]
    pub fn now() -> (r: DateTime) { unimplemented!() }
}
// From<chrono::DateTime<Utc>> for DateTime
impl vstd::std_specs::convert::FromSpecImpl<DateTimeUtc> for DateTime {
    open spec fn obeys_from_spec() -> bool { true }
    open spec fn from_spec(v: DateTimeUtc) -> DateTime { DateTime { ms: v.ms } }
}
impl From<DateTimeUtc> for DateTime { fn from(v: DateTimeUtc) -> (r: DateTime) { DateTime { ms: v.ms } } }
pub struct RequestHeader { pub timestamp: DateTime, pub timeout_hint: u32, pub request_handle: u32 }
pub struct PublishRequest { pub request_header: RequestHeader }
pub struct PublishRequestEntry { pub request_id: u32, pub request: PublishRequest }
pub struct ResponseHeader { pub service_result: StatusCode, pub request_handle: u32 }
impl ResponseHeader {
    #[verifier::external_body]
    pub fn new_timestamped_service_result(timestamp: DateTime, request_header: &RequestHeader, service_result: StatusCode) -> (r: ResponseHeader)
        ensures r.service_result == service_result, r.request_handle == request_header.request_handle
    { unimplemented!() }
}
pub struct ServiceFault { pub response_header: ResponseHeader }
pub struct SupportedMessage { pub fault: Option<ServiceFault> }
impl vstd::std_specs::convert::FromSpecImpl<ServiceFault> for SupportedMessage {
    open spec fn obeys_from_spec() -> bool { true }
    open spec fn from_spec(v: ServiceFault) -> SupportedMessage { SupportedMessage { fault: Some(v) } }
}
impl From<ServiceFault> for SupportedMessage { fn from(v: ServiceFault) -> (r: SupportedMessage) { SupportedMessage { fault: Some(v) } } }
pub struct PublishResponseEntry { pub request_id: u32, pub response: SupportedMessage }
pub assume_specification<T, A: std::alloc::Allocator> [VecDeque::<T, A>::is_empty] (v: &VecDeque<T, A>) -> (r: bool)
    ensures r == (v@.len() == 0);
// ---- the rest of a monitored item / subscription, as far as tick looks at it
pub struct AddressSpace { pub x: u64 }
pub struct Notification { pub x: u64 }
pub struct DataValue { pub x: u64 }
impl MonitoredItem {
    #[verifier::external_body]
    pub fn is_event_filter(&self) -> (r: bool) { unimplemented!() }
    // check_value samples the node and records the sample time
    #[verifier::external_body]
    pub fn check_value(&mut self, address_space: &AddressSpace, now: &DateTimeUtc, resend_data: bool) -> (r: bool)
        ensures final(self).monitoring_mode == old(self).monitoring_mode, final(self).sampling_interval == old(self).sampling_interval,
    { unimplemented!() }
}

// ---- specification
// the time that counts as elapsed between two timestamps: never negative
pub open spec fn elapsed_us(now: DateTimeUtc, since: DateTimeUtc) -> int {
    if now.ms as int - since.ms as int >= 0 { (now.ms as int - since.ms as int) * 1000 } else { 0 }
}
// the timeout of a queued publish request: its own hint when that is positive and below the server's, else the server's
pub open spec fn timeout_us(r: PublishRequestEntry, server_timeout: i64) -> int {
    let h = r.request.request_header.timeout_hint;
    (if h > 0 && (h as i64) < server_timeout { h as u64 } else { server_timeout as u64 }) as int * 1000
}
pub open spec fn still_waiting(r: PublishRequestEntry, now: DateTimeUtc, server_timeout: i64) -> bool {
    elapsed_us(now, DateTimeUtc { ms: r.request.request_header.timestamp.ms }) <= timeout_us(r, server_timeout)
}
pub open spec fn is_timeout(e: PublishResponseEntry) -> bool {
    e.response.fault is Some && e.response.fault->Some_0.response_header.service_result == StatusCode::BadTimeout
}
// `e` answers one of the first `done` requests of the queue, and that request's timeout has elapsed
pub open spec fn answered_late(q0: Seq<PublishRequestEntry>, done: int, e: PublishResponseEntry, now: DateTimeUtc, server_timeout: i64) -> bool {
    exists|i: int| 0 <= i < done && (#[trigger] q0[i]).request_id == e.request_id && !still_waiting(q0[i], now, server_timeout)
}
'''

SPEC = {
    # C26 asks of these two only that no timestamp makes them panic (what they answer is the business of C22/C24)
    'test_and_set_publishing_interval_elapsed': ('r', '''        ensures true,'''),
    'tick': ('r', '''        ensures true,'''),
    'expire_stale_publish_requests': (None, '''        requires old(self).publish_request_queue@.len() + old(self).publish_response_queue@.len() <= usize::MAX,
        ensures
            // a BadTimeout answer that was not there before answers a queued request whose timeout has elapsed since its
            // (client supplied) timestamp
            forall|j: int| 0 <= j < final(self).publish_response_queue@.len() && is_timeout(#[trigger] final(self).publish_response_queue@[j])
                ==> old(self).publish_response_queue@.contains(final(self).publish_response_queue@[j])
                    || answered_late(old(self).publish_request_queue@, old(self).publish_request_queue@.len() as int,
                                     final(self).publish_response_queue@[j], *now, old(self).publish_request_timeout),'''),
}

CANARY = '''
proof fn canary_clock(r: PublishRequestEntry, now: DateTimeUtc)
    requires still_waiting(r, now, 30000), now.ms < r.request.request_header.timestamp.ms,
    ensures false,
{}
'''


def build(manifest):
    sb = Src('server/subscriptions/subscription.rs', manifest)
    mi = Src('server/subscriptions/monitored_item.rs', manifest)
    ss = Src('server/subscriptions/subscriptions.rs', manifest)
    en = Src('types/service_types/enums.rs', manifest)
    rewrites = []
    f = {}
    t = norm_vis(clean_fn(sb.impl_fn(r'^impl Subscription \{', 'test_and_set_publishing_interval_elapsed')))
    f['test_and_set_publishing_interval_elapsed'] = t
    f['tick'] = norm_vis(clean_fn(mi.impl_fn(r'^impl MonitoredItem \{', 'tick')))
    f['expire_stale_publish_requests'] = retain_to_loop(norm_vis(clean_fn(ss.impl_fn(r'^impl Subscriptions \{', 'expire_stale_publish_requests'))), rewrites)
    for k in f:
        t = f[k]
        # D8: `super::duration_from_ms` is the free function of server/subscriptions/mod.rs (environment here)
        t = t.replace('super::duration_from_ms(', 'duration_from_ms(')
        t = re.sub(r'^(\s*)fn ', r'\1pub fn ', t, count=1) if not re.match(r'\s*pub ', t) else t
        f[k] = splice_contract(t, SPEC[k][1], SPEC[k][0])
    g = f['expire_stale_publish_requests']
    if rewrites:
        g = splice_at(g, r'^\s*let mut idx_request: usize = 0;', '''        let ghost q0 = self.publish_request_queue@;
        let ghost mut done: int = 0;''', before=True)
        g = splice_loop(g, 0, '''            invariant 0 <= done <= q0.len(), idx_request <= self.publish_request_queue@.len(), q0 == old(self).publish_request_queue@,
                publish_request_timeout == old(self).publish_request_timeout,
                self.publish_response_queue@ == old(self).publish_response_queue@,
                // what is still to be looked at is the rest of the queue as it was
                self.publish_request_queue@.subrange(idx_request as int, self.publish_request_queue@.len() as int) == q0.subrange(done, q0.len() as int),
                forall|j: int| 0 <= j < expired_publish_responses@.len() && is_timeout(#[trigger] expired_publish_responses@[j])
                    ==> answered_late(q0, done, expired_publish_responses@[j], *now, old(self).publish_request_timeout),
            decreases q0.len() - done,''')
        g = splice_at(g, r'^\s*let request = &self\.publish_request_queue\[idx_request\];', '''            proof {
                let ghost rest = self.publish_request_queue@.subrange(idx_request as int, self.publish_request_queue@.len() as int);
                assert(rest.len() == q0.len() - done);
                assert(rest[0] == q0[done]);
            }
            let ghost len0 = self.publish_request_queue@.len();''', before=True)
        g = splice_at(g, r'^\s*if keep_request \{', '''            proof {
                let ghost a = self.publish_request_queue@;
                let ghost rest = a.subrange(idx_request as int, len0 as int);
                assert(rest == q0.subrange(done, q0.len() as int));
                assert(a.subrange(idx_request as int + 1, len0 as int) =~= rest.subrange(1, rest.len() as int));
                assert(q0.subrange(done, q0.len() as int).subrange(1, rest.len() as int) =~= q0.subrange(done + 1, q0.len() as int));
                done = done + 1;
            }''', before=True)
        g = splice_at(g, r'^\s*self\.publish_response_queue\s*$', '''        proof {
            assert(self.publish_request_queue@.subrange(idx_request as int, self.publish_request_queue@.len() as int).len() == q0.len() - done);
        }''', before=True)
    f['expire_stale_publish_requests'] = g
    types = '\n'.join([
        en.enum('MonitoringMode'),
        mi.enum('TickResult'),
        # in these two files `Duration` is the OPC UA type alias `types::Duration = f64` (the std Duration of this unit is the
        # one subscriptions.rs imports): the alias is expanded
        sb.struct('Subscription', keep_fields=['publishing_interval', 'last_time_publishing_interval_elapsed']).replace(': Duration', ': f64'),
        mi.struct('MonitoredItem', keep_fields=['monitoring_mode', 'sampling_interval', 'last_sample_time', 'notification_queue', 'last_data_value']).replace(': Duration', ': f64'),
        ss.struct('Subscriptions', keep_fields=['publish_request_queue', 'publish_response_queue', 'publish_request_timeout']),
    ])
    a = Asm()
    a.add('#![feature(allocator_api)]\nuse vstd::prelude::*;\nverus! {\nglobal size_of usize == 8;\n', 'prelude', 'env')
    a.add(norm_vis(types), 'types', 'env')
    a.add(status_code_struct(manifest), 'status codes', 'env')      # every status code of the real file (D14)
    a.add(ENV, 'env', 'env')
    a.add('impl Subscription {')
    a.add(f['test_and_set_publishing_interval_elapsed'], 'Subscription::test_and_set_publishing_interval_elapsed', 'fn')
    a.add('}\nimpl MonitoredItem {')
    a.add(f['tick'], 'MonitoredItem::tick', 'fn')
    a.add('}\nimpl Subscriptions {')
    a.add(f['expire_stale_publish_requests'], 'Subscriptions::expire_stale_publish_requests', 'fn')
    a.add('}')
    add_proof_fns(a, CANARY, 'canary')
    a.add('}\nfn main() {}\n')
    return dict(asm=a, pid=PID, short=SHORT, clauses={k: v[1] for k, v in SPEC.items()}, twins={}, witness={},
                assumptions=['C26: chrono — the difference of two representable timestamps is a signed number of milliseconds that fits an '
                             'i64, and TimeDelta::to_std fails exactly when it is negative; std Duration compares by its length; '
                             'Result::unwrap_or_default yields Duration::default() == 0 on Err (timestamps are modelled in milliseconds)',
                             'C26: rewrite D18 — the `retain` closure of expire_stale_publish_requests becomes the in-place filter loop it '
                             'stands for',
                             'C26: MonitoredItem::check_value (address space) and is_event_filter are environment; the call sites '
                             '(Session / Subscriptions::tick) pass the server clock as `now`'])
