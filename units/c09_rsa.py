"""C09 / C16 — Verus unit: the block loop of PrivateKey::private_decrypt (lib/src/crypto/pkey.rs), verbatim.
OpenSSL's single-block RSA decryption is environment."""
from extract import *

PID = 'C09'
SHORT = 'rsa'

ENV = '''
pub struct PKeyError;
#[derive(Debug)]
pub struct ErrorStack { pub x: u8 }
pub mod rsa { use vstd::prelude::*; use super::*; verus! {
    #[derive(Clone, Copy)]
    pub struct Padding { pub id: u8 }
    impl Into<Padding> for RsaPadding {
        #[verifier::external_body]
        fn into(self) -> (r: Padding) { unimplemented!() }
    }
    pub struct Rsa { pub size: usize }
    impl Rsa {
        // RSA_private_decrypt: at most RSA_size(rsa) - overhead plaintext bytes for one RSA_size(rsa)-byte block
        #[verifier::external_body]
        pub fn private_decrypt(&self, from: &[u8], to: &mut [u8], padding: Padding) -> (r: Result<usize, ErrorStack>)
            ensures final(to)@.len() == old(to)@.len(), r is Ok ==> r->Ok_0 <= from@.len() && r->Ok_0 <= old(to)@.len(),
        { unimplemented!() }
    }
} }
pub mod oaep_sha256 { use vstd::prelude::*; use super::*; verus! {
    #[verifier::external_body]
    pub fn decrypt(pkey: &rsa::Rsa, from: &[u8], to: &mut [u8]) -> (r: Result<usize, ErrorStack>)
        ensures final(to)@.len() == old(to)@.len(), r is Ok ==> r->Ok_0 <= from@.len() && r->Ok_0 <= old(to)@.len(),
    { unimplemented!() }
} }
pub struct PKeyInner { pub size: usize }
impl PKeyInner {
    // the key is an RSA key (the only kind this stack creates or loads)
    #[verifier::external_body]
    pub fn rsa(&self) -> (r: Result<rsa::Rsa, ErrorStack>) ensures r is Ok, r->Ok_0.size == self.size { unimplemented!() }
}
pub struct PrivateKey { pub value: PKeyInner }
impl PrivateKey {
    // KeySize::size(): RSA_size in bytes; keys accepted by the policies are 1024..4096 bits
    #[verifier::external_body]
    pub fn size(&self) -> (r: usize) ensures r == self.value.size, 128 <= r <= 512 { unimplemented!() }
}
'''
SPEC = {
    'cipher_text_block_size': ('r', '''        ensures r == self.value.size, 128 <= r <= 512,'''),
    'private_decrypt': ('r', '''        requires src@.len() <= 0x7fff_ffff,
        ensures final(dst)@.len() == old(dst)@.len(),
            // never more plaintext than cipher text, never beyond the destination
            r is Ok ==> r->Ok_0 <= src@.len() && r->Ok_0 <= old(dst)@.len(),
            // a cipher text that is not a whole number of key-size blocks, or a destination that is too small, is an error
            (src@.len() % (self.value.size as nat) != 0 || old(dst)@.len() < src@.len()) ==> r is Err,'''),
}


def build(manifest):
    pk = Src('crypto/pkey.rs', manifest)
    f = {}
    f['cipher_text_block_size'] = pk.impl_fn(r'^pub trait KeySize \{', 'cipher_text_block_size')   # default method of the trait, re-homed (D8)
    f['private_decrypt'] = pk.impl_fn(r'^impl PrivateKey \{', 'private_decrypt')
    for k in f:
        t = norm_vis(clean_fn(f[k]))
        t = re.sub(r'^(\s*)fn ', r'\1pub fn ', t, count=1) if not re.match(r'\s*pub ', t) else t
        f[k] = splice_contract(t, SPEC[k][1], SPEC[k][0])
    g = f['private_decrypt']
    # ghost quotients: src_len == n * block, src_idx == k * block (products instead of remainders keep the
    # nonlinear obligations small)
    g = splice_at(g, r'^\s*while src_idx < src_len', '''        let ghost n: int = (src_len / cipher_text_block_size) as int;
        let ghost mut k: int = 0;
        proof {
            vstd::arithmetic::div_mod::lemma_fundamental_div_mod(src_len as int, cipher_text_block_size as int);
            assert(src_len == n * cipher_text_block_size) by (nonlinear_arith)
                requires src_len == cipher_text_block_size * (src_len / cipher_text_block_size) + src_len % cipher_text_block_size,
                    src_len % cipher_text_block_size == 0, n == src_len / cipher_text_block_size;
            assert(0 * cipher_text_block_size == 0) by (nonlinear_arith);
        }''', before=True)
    g = splice_loop(g, 0, '''            invariant
                src_len == src@.len(), 128 <= cipher_text_block_size <= 512, src_len <= 0x7fff_ffff,
                src_idx == k * cipher_text_block_size, src_len == n * cipher_text_block_size, 0 <= k <= n, src_idx <= src_len,
                dst_idx <= src_idx, dst@.len() >= src_len, dst@.len() == old(dst)@.len(),
            decreases src_len - src_idx,''')
    g = splice_at(g, r'^\s*dst_idx \+= \{', '''            proof {
                assert(k < n) by (nonlinear_arith)
                    requires k * cipher_text_block_size < n * cipher_text_block_size, cipher_text_block_size > 0;
                assert((k + 1) * cipher_text_block_size == k * cipher_text_block_size + cipher_text_block_size) by (nonlinear_arith);
                assert((k + 1) * cipher_text_block_size <= n * cipher_text_block_size) by (nonlinear_arith)
                    requires k + 1 <= n, cipher_text_block_size > 0;
            }''', before=True)
    g = splice_at(g, r'^\s*src_idx \+= cipher_text_block_size;', '            proof { k = k + 1; }', before=False)
    a = Asm()
    a.add('use vstd::prelude::*;\nverus! {\nglobal size_of usize == 8;\n', 'prelude', 'env')
    a.add(norm_vis(pk.enum('RsaPadding')), 'types', 'env')
    a.add(ENV, 'env', 'env')
    a.add('impl PrivateKey {')
    a.add(f['cipher_text_block_size'], 'cipher_text_block_size', 'fn')
    a.add(g, 'private_decrypt', 'fn')
    a.add('}')
    add_proof_fns(a, '''
proof fn canary_private_decrypt(k: PrivateKey, n: nat)
    requires k.value.size == 256, n == 512,
    ensures false,
{}
''', 'canary')
    a.add('}\nfn main() {}\n')
    return dict(asm=a, pid=PID, short=SHORT, clauses={k: v[1] for k, v in SPEC.items()}, twins={}, witness={},
                assumptions=['C09: OpenSSL RSA_private_decrypt / the OAEP-SHA256 helper return at most one block of plaintext and leave the '
                             'destination length unchanged; the key is an RSA key of 128..512 bytes'])
