"""C11 / C10 — Verus unit over <TcpCodec as tokio_util::codec::Decoder>::decode (verbatim; D8: re-homed into an
inherent impl with Self::Item / Self::Error substituted). bytes::BytesMut is environment with sequence semantics."""
from extract import *

SHORT = 'codec'

ENV = '''
pub struct DecodingOptions { pub max_message_size: usize }
pub struct Message { pub id: int }
pub mod io {
    use vstd::prelude::*;
    use super::*;
    verus!{
    pub struct Error { pub code: StatusCode }
    impl Error {
        pub fn from(e: StatusCode) -> (r: Error) ensures r.code == e { Error { code: e } }
    }
    pub struct Cursor<'a> { pub data: &'a [u8] }
    impl<'a> Cursor<'a> {
        pub fn new(data: &'a [u8]) -> (r: Cursor<'a>) ensures r.data@ == data@ { Cursor { data } }
    }
    }
}
// ---- bytes::BytesMut: a byte sequence; split_to(at) returns the first `at` bytes and keeps the rest
pub struct BytesMut { pub v: Vec<u8> }
impl BytesMut {
    #[verifier::external_body]
    pub fn len(&self) -> (r: usize) ensures r == self.v@.len() { unimplemented!() }
    #[verifier::external_body]
    pub fn split_to(&mut self, at: usize) -> (r: BytesMut)
        requires at <= old(self).v@.len(),
        ensures r.v@ == old(self).v@.subrange(0, at as int), final(self).v@ == old(self).v@.subrange(at as int, old(self).v@.len() as int)
    { unimplemented!() }
    #[verifier::external_body]
    pub fn index_range(&self, r: std::ops::Range<usize>) -> (o: &[u8])
        requires r.start <= r.end <= self.v@.len(),
        ensures o@ == self.v@.subrange(r.start as int, r.end as int)
    { unimplemented!() }
}
// ---- the two decoders (generic S: Read): results are functions of the bytes they are given
pub uninterp spec fn spec_header(bytes8: Seq<u8>) -> Result<MessageHeader, StatusCode>;
pub uninterp spec fn spec_message(h: MessageHeader, frame: Seq<u8>) -> Result<Message, StatusCode>;
impl MessageHeader {
    #[verifier::external_body]
    pub fn decode(stream: &mut io::Cursor, opts: &DecodingOptions) -> (r: Result<MessageHeader, io::Error>)
        ensures (r is Ok) == (spec_header(old(stream).data@) is Ok),
            r is Ok ==> r->Ok_0 == spec_header(old(stream).data@)->Ok_0,
            r is Err ==> r->Err_0.code == spec_header(old(stream).data@)->Err_0,
    { unimplemented!() }
}
impl TcpCodec {
    #[verifier::external_body]
    pub fn decode_message(message_header: MessageHeader, buf: &mut BytesMut, decoding_options: &DecodingOptions) -> (r: Result<Message, StatusCode>)
        ensures r == spec_message(message_header, old(buf).v@)
    { unimplemented!() }
}

// ---- specification of one decode step as a function of the buffer content only
pub enum Step { NeedMore, Frame(nat), Error }
pub open spec fn spec_step(buf: Seq<u8>, max: nat) -> Step {
    if buf.len() <= 8 { Step::NeedMore }
    else {
        match spec_header(buf.subrange(0, 8)) {
            Err(_) => Step::Error,
            Ok(h) => {
                let size = h.message_size as nat;
                if max > 0 && size > max { Step::Error }           // C10: rejected before it is accumulated
                else if buf.len() < size { Step::NeedMore }
                else if spec_message(h, buf.subrange(0, size as int)) is Err { Step::Error }
                else { Step::Frame(size) }
            }
        }
    }
}
'''

SPEC = {
    'decode': ('r', '''        requires old(self).decoding_options.max_message_size <= 0x7fff_ffff,
        ensures
            // C11: the outcome is a function of the buffer content; a frame consumes exactly its declared size and
            // depends only on the consumed prefix; nothing is consumed otherwise
            match spec_step(old(buf).v@, old(self).decoding_options.max_message_size as nat) {
                Step::NeedMore => r is Ok && r->Ok_0 is None && final(buf).v@ == old(buf).v@,
                Step::Error => r is Err,
                Step::Frame(n) => r is Ok && r->Ok_0 is Some && n <= old(buf).v@.len()
                    && final(buf).v@ == old(buf).v@.subrange(n as int, old(buf).v@.len() as int)
                    && Ok::<Message, StatusCode>(r->Ok_0->Some_0) == spec_message(spec_header(old(buf).v@.subrange(0, 8))->Ok_0, old(buf).v@.subrange(0, n as int)),
            },
            // C10: a frame whose declared size exceeds the maximum is an error as soon as its header is complete
            (old(buf).v@.len() > 8 && spec_header(old(buf).v@.subrange(0, 8)) is Ok && old(self).decoding_options.max_message_size > 0
                && spec_header(old(buf).v@.subrange(0, 8))->Ok_0.message_size as nat > old(self).decoding_options.max_message_size as nat)
                ==> (r is Err && final(buf).v@ == old(buf).v@),'''),
}

LEMMAS_SIMPLE = '''
// a step that produced a frame or an error is unaffected by bytes that arrive later: the receiver's verdict on a
// complete frame does not depend on how the following bytes are segmented
proof fn lemma_step_stable(a: Seq<u8>, b: Seq<u8>, max: nat)
    ensures
        spec_step(a, max) is Frame ==> spec_step(a + b, max) == spec_step(a, max),
        spec_step(a, max) is Error ==> spec_step(a + b, max) is Error,
{
    if a.len() > 8 {
        assert((a + b).subrange(0, 8) =~= a.subrange(0, 8));
        if let Ok(h) = spec_header(a.subrange(0, 8)) {
            let size = h.message_size as nat;
            if a.len() >= size {
                assert((a + b).subrange(0, size as int) =~= a.subrange(0, size as int));
            }
        }
    }
}
// while the receiver is waiting for more bytes nothing has been consumed, so however the remaining bytes are
// split, the decision is eventually taken on the same prefix: if the whole stream s decodes a frame of n bytes,
// then every shorter prefix of s either asks for more or already decodes that same frame
proof fn lemma_prefix_consistent(s: Seq<u8>, k: int, max: nat)
    requires 0 <= k <= s.len(), spec_step(s, max) is Frame,
    ensures spec_step(s.subrange(0, k), max) is NeedMore || spec_step(s.subrange(0, k), max) == spec_step(s, max),
{
    let p = s.subrange(0, k);
    if p.len() > 8 {
        assert(p.subrange(0, 8) =~= s.subrange(0, 8));
        let h = spec_header(s.subrange(0, 8))->Ok_0;
        let size = h.message_size as nat;
        if p.len() >= size {
            assert(p.subrange(0, size as int) =~= s.subrange(0, size as int));
        }
    }
}
// and an error verdict on the whole stream's first frame is reached on every prefix long enough to decide it
proof fn lemma_prefix_error(s: Seq<u8>, k: int, max: nat)
    requires 0 <= k <= s.len(), spec_step(s.subrange(0, k), max) is Error,
    ensures spec_step(s, max) is Error,
{
    lemma_step_stable(s.subrange(0, k), s.subrange(k, s.len() as int), max);
    assert(s.subrange(0, k) + s.subrange(k, s.len() as int) =~= s);
}
'''

CANARY = '''
proof fn canary_step(buf: Seq<u8>, max: nat)
    requires spec_step(buf, max) is Frame, max > 0, buf.len() > 100,
    ensures false,
{}
'''


def build_for(manifest, pid):
    src = Src('core/comms/tcp_codec.rs', manifest)
    tt = Src('core/comms/tcp_types.rs', manifest)
    f = clean_fn(src.impl_fn(r'^impl Decoder for TcpCodec \{', 'decode'))
    # D8: trait method re-homed in an inherent impl; associated types written out as in the impl header
    f = f.replace('Self::Item', 'Message').replace('Self::Error', 'io::Error')
    # D11: indexing of the environment type BytesMut by a range -> its range accessor (same bytes)
    f2 = f.replace('&buf[0..MESSAGE_HEADER_LEN]', 'buf.index_range(0..MESSAGE_HEADER_LEN)')
    if f2 == f:
        raise Undecided('lost anchor: header slice in TcpCodec::decode')
    f = re.sub(r'^(\s*)fn decode', r'\1pub fn decode', f2, count=1)
    clause = SPEC['decode'][1]
    if pid == 'C10':
        # C10 decides only the size pre-check clause; the framing clauses (and the safety of split_to) belong to C11
        i = clause.index('            // C10: a frame whose declared size')
        clause = clause[:clause.index('        ensures')] + '        ensures\n' + clause[i:]
    f = splice_contract(f, clause, 'r')
    a = Asm()
    a.add('use vstd::prelude::*;\nverus! {\nglobal size_of usize == 8;\n', 'prelude', 'env')
    a.add(norm_vis(tt.const('MESSAGE_HEADER_LEN')), 'consts', 'env')
    a.add(norm_vis(tt.enum('MessageType')) + '\n' + norm_vis(tt.struct('MessageHeader', derive='Clone, Copy, PartialEq, Eq, Structural')) + '\n' + norm_vis(src.struct('TcpCodec')), 'types', 'env')
    a.add(status_code_struct(manifest), 'status codes', 'env')      # every status code of the real file (D14)
    a.add(ENV, 'env', 'env')
    a.add('impl TcpCodec {')
    a.add(f, 'decode', 'fn')
    a.add('}')
    add_proof_fns(a, LEMMAS_SIMPLE, 'lemma')
    add_proof_fns(a, CANARY, 'canary')
    a.add('}\nfn main() {}\n')
    extra = dict(only_kinds=r'postcondition not satisfied') if pid == 'C10' else {}
    return dict(extra, asm=a, pid=pid, short=SHORT, clauses={k: v[1] for k, v in SPEC.items()}, twins={}, witness={},
                assumptions=['%s: bytes::BytesMut behaves as a byte sequence (len, range indexing, split_to); MessageHeader::decode and '
                             'TcpCodec::decode_message are functions of the bytes they are given (no hidden state)' % pid])


def build(manifest):
    return build_for(manifest, 'C11')
