"""C28 — Verus unit: the reference store, verbatim (server/address_space/references.rs): Reference::new,
References::{insert_reference, has_reference, delete_reference, remove_node_from_referenced_nodes, delete_node_references}
(generic parameters instantiated at NodeId: D13; closures over iterators as the loops they stand for: D18, D19, D21, D23),
over environment HashMap / HashSet with std's map and set semantics (HashMap::get_mut returning a mutable borrow).

The abstract view of the store is the set of (source, type, target) triples found in the forward map; the representation
invariant says the reverse lookup knows every source of every target (index complete).
Proved for every store satisfying the invariant and every argument: insert_reference adds exactly its triple,
delete_reference removes exactly its triple (never the one in the opposite direction, never another type or target) and
says whether it was there, has_reference answers membership, delete_node_references removes exactly the triples from or
to the node; all of them keep the invariant."""
from extract import *

PID = 'C28'
SHORT = 'references'

ENV = '''
use vstd::std_specs::cmp::PartialEqSpec;
// a node id: namespace index and identifier (the identifier's four forms are not distinguished here)
#[derive(PartialEq, Eq, Structural)]
pub struct NodeId { pub namespace: u16, pub identifier: u64 }
impl Clone for NodeId {
    // #[derive(Clone)]
    fn clone(&self) -> (r: Self) ensures r == *self { NodeId { namespace: self.namespace, identifier: self.identifier } }
}
impl NodeId {
    // Into<NodeId> for NodeId (the generic parameter is instantiated at NodeId: D13)
    pub fn into(self) -> (r: NodeId) ensures r == self { self }
}
impl std::fmt::Display for NodeId {
    #[verifier::external_body]
    fn fmt(&self, f: &mut std::fmt::Formatter<'_>) -> std::fmt::Result { unimplemented!() }
}
// #[derive(PartialEq)] on Reference: field-wise equality
impl vstd::std_specs::cmp::PartialEqSpecImpl for Reference {
    open spec fn obeys_eq_spec() -> bool { true }
    open spec fn eq_spec(&self, other: &Reference) -> bool { *self == *other }
}
impl PartialEq for Reference {
    fn eq(&self, other: &Reference) -> (r: bool) { self.reference_type == other.reference_type && self.target_node == other.target_node }
}
// <[T]>::contains (std): some element equals the argument
pub assume_specification<T: PartialEq> [<[T]>::contains] (s: &[T], x: &T) -> (r: bool)
    ensures T::obeys_eq_spec() ==> r == (exists|i: int| #![trigger s@[i]] 0 <= i < s@.len() && s@[i].eq_spec(x));

// ---- std HashMap / HashSet (std semantics assumed)
#[verifier::external_body]
#[verifier::reject_recursive_types(K)]
#[verifier::reject_recursive_types(V)]
pub struct HashMap<K, V> { k: std::marker::PhantomData<K>, v: std::marker::PhantomData<V> }
impl<K, V> View for HashMap<K, V> { type V = Map<K, V>; uninterp spec fn view(&self) -> Map<K, V>; }
impl<K, V> HashMap<K, V> {
    #[verifier::external_body]
    pub fn get(&self, k: &K) -> (r: Option<&V>)
        ensures match r { Some(v) => self@.contains_key(*k) && *v == self@[*k], None => !self@.contains_key(*k) }
    { unimplemented!() }
    #[verifier::external_body]
    pub fn get_mut(&mut self, k: &K) -> (r: Option<&mut V>)
        ensures match r {
            Some(v) => old(self)@.contains_key(*k) && *v == old(self)@[*k] && final(self)@ == old(self)@.insert(*k, *final(v)),
            None => !old(self)@.contains_key(*k) && final(self)@ == old(self)@ }
    { unimplemented!() }
    #[verifier::external_body]
    pub fn insert(&mut self, k: K, v: V) -> (r: Option<V>) ensures final(self)@ == old(self)@.insert(k, v) { unimplemented!() }
    #[verifier::external_body]
    pub fn remove(&mut self, k: &K) -> (r: Option<V>)
        ensures final(self)@ == old(self)@.remove(*k),
            match r { Some(v) => old(self)@.contains_key(*k) && v == old(self)@[*k], None => !old(self)@.contains_key(*k) }
    { unimplemented!() }
}
#[verifier::external_body]
#[verifier::reject_recursive_types(T)]
pub struct HashSet<T> { t: std::marker::PhantomData<T> }
impl<T> View for HashSet<T> { type V = Set<T>; uninterp spec fn view(&self) -> Set<T>; }
impl<T> HashSet<T> {
    // the elements in iteration order (some order, each once)
    pub uninterp spec fn elems(&self) -> Seq<T>;
    #[verifier::external_body]
    pub proof fn elems_are_the_set(&self)
        ensures self.elems().no_duplicates(), forall|x: T| self.elems().contains(x) == self@.contains(x),
    { unimplemented!() }
    #[verifier::external_body]
    pub fn new() -> (r: HashSet<T>) ensures r@ == Set::<T>::empty() { unimplemented!() }
    #[verifier::external_body]
    pub fn insert(&mut self, x: T) -> (r: bool) ensures final(self)@ == old(self)@.insert(x), r == !old(self)@.contains(x) { unimplemented!() }
    #[verifier::external_body]
    pub fn remove(&mut self, x: &T) -> (r: bool) ensures final(self)@ == old(self)@.remove(*x), r == old(self)@.contains(*x) { unimplemented!() }
    #[verifier::external_body]
    pub fn contains(&self, x: &T) -> (r: bool) ensures r == self@.contains(*x) { unimplemented!() }
    #[verifier::external_body]
    pub fn is_empty(&self) -> (r: bool) ensures r == (self@ == Set::<T>::empty()) { unimplemented!() }
}
// iteration over a set (rewrites D21 / D23)
#[verifier::external_body]
pub fn iter_len<T>(s: &HashSet<T>) -> (r: usize) ensures r == s.elems().len() { unimplemented!() }
#[verifier::external_body]
pub fn iter_nth<T>(s: &HashSet<T>, i: usize) -> (r: &T) requires i < s.elems().len(), ensures *r == s.elems()[i as int] { unimplemented!() }

// ---- specification
pub type Triple = (NodeId, NodeId, NodeId);          // (source, reference type, target)
pub open spec fn has(m: Map<NodeId, Vec<Reference>>, t: Triple) -> bool {
    m.contains_key(t.0) && m[t.0]@.contains(Reference { reference_type: t.1, target_node: t.2 })
}
impl References {
    // the references held: membership of a triple
    pub open spec fn holds(&self, t: Triple) -> bool { has(self.references_map@, t) }
    // representation invariant: the reverse lookup knows every source of every target
    pub open spec fn index_complete(&self) -> bool {
        forall|t: Triple| #[trigger] has(self.references_map@, t) ==>
            self.referenced_by_map@.contains_key(t.2) && self.referenced_by_map@[t.2]@.contains(t.0)
    }
}
'''

SPEC = {
    'new': ('r', '''        ensures r == (Reference { reference_type, target_node }),'''),
    'has_reference': ('r', '''        ensures r == self.holds((*source_node, reference_type, *target_node)),'''),
    'insert_reference': (None, '''        requires old(self).index_complete(),
            *source_node != *target_node,                // a self reference panics
        ensures final(self).index_complete(),
            // exactly this reference is added (nothing when it was there already)
            forall|t: Triple| #[trigger] final(self).holds(t) == (old(self).holds(t) || t == (*source_node, *reference_type, *target_node)),'''),
}

# ghost blocks placed structurally (end of body / before the tail expression); they mention parameters, old(self) and self only
END = {
    'insert_reference': '''        proof {
            let r0 = Reference { reference_type: rt0, target_node: *target_node };
            let m0 = old(self).references_map@;
            let m1 = self.references_map@;
            if m0.contains_key(*source_node) { lemma_push_contains(m0[*source_node]@, r0); }
            assert(m1.contains_key(*source_node));
            assert(forall|x: Reference| #[trigger] m1[*source_node]@.contains(x) == (x == r0 || (m0.contains_key(*source_node) && m0[*source_node]@.contains(x)))) by {
                if !m0.contains_key(*source_node) { lemma_single_contains(r0); }
            }
            assert forall|t: Triple| #[trigger] self.holds(t) == (old(self).holds(t) || t == (*source_node, rt0, *target_node)) by {
                if t.0 == *source_node {
                    assert(m1[*source_node]@.contains(Reference { reference_type: t.1, target_node: t.2 })
                        == (Reference { reference_type: t.1, target_node: t.2 } == r0 || (m0.contains_key(*source_node) && m0[*source_node]@.contains(Reference { reference_type: t.1, target_node: t.2 }))));
                }
            }
            assert forall|t: Triple| #[trigger] has(self.references_map@, t) implies
                self.referenced_by_map@.contains_key(t.2) && self.referenced_by_map@[t.2]@.contains(t.0) by {
                if t != (*source_node, rt0, *target_node) { assert(has(old(self).references_map@, t)); }
            }
        }''',
}

LEMMAS = '''
proof fn lemma_push_contains(s: Seq<Reference>, x: Reference)
    ensures forall|y: Reference| #[trigger] s.push(x).contains(y) == (s.contains(y) || y == x),
{
    assert forall|y: Reference| #[trigger] s.push(x).contains(y) == (s.contains(y) || y == x) by {
        if s.contains(y) { let i = choose|i: int| 0 <= i < s.len() && s[i] == y; assert(s.push(x)[i] == y); }
        if y == x { assert(s.push(x)[s.len() as int] == x); }
        if s.push(x).contains(y) { let i = choose|i: int| 0 <= i < s.push(x).len() && s.push(x)[i] == y; if i < s.len() { assert(s[i] == y); } }
    }
}
proof fn lemma_remove_contains(s: Seq<Reference>, i: int)
    requires 0 <= i < s.len(),
    ensures forall|x: Reference| #[trigger] s.remove(i).contains(x) ==> s.contains(x),
        forall|x: Reference| #[trigger] s.contains(x) && x != s[i] ==> s.remove(i).contains(x),
        forall|k: int| 0 <= k < i ==> #[trigger] s.remove(i)[k] == s[k],
{
    assert forall|x: Reference| #[trigger] s.remove(i).contains(x) implies s.contains(x) by {
        let k = choose|k: int| 0 <= k < s.remove(i).len() && s.remove(i)[k] == x;
        if k < i { assert(s[k] == x); } else { assert(s[k + 1] == x); }
    }
    assert forall|x: Reference| #[trigger] s.contains(x) && x != s[i] implies s.remove(i).contains(x) by {
        let k = choose|k: int| 0 <= k < s.len() && s[k] == x;
        if k < i { assert(s.remove(i)[k] == x); } else { assert(s.remove(i)[k - 1] == x); }
    }
}
proof fn lemma_single_contains(x: Reference)
    ensures forall|y: Reference| #[trigger] Seq::<Reference>::empty().push(x).contains(y) == (y == x),
{
    lemma_push_contains(Seq::<Reference>::empty(), x);
}
'''

SPEC['delete_reference'] = ('r', '''        requires old(self).index_complete(),
        ensures final(self).index_complete(),
            // exactly this reference goes: not the one in the opposite direction, not another type, not another target
            forall|t: Triple| #[trigger] final(self).holds(t) == (old(self).holds(t) && t != (*source_node, reference_type, *target_node)),
            r == old(self).holds((*source_node, reference_type, *target_node)),''')

# loop invariants of delete_reference (loops 0..3 in the rewritten text: targets before, retain, targets after, reverse lookup)
DR_V0 = 'old(self).references_map@[*source_node]@'
DR_LOOPS = [
    '''                    invariant idx_0 <= references@.len(), references@ == V0,
                        forall|x: NodeId| #[trigger] coll_0@.contains(x) == (exists|k: int| 0 <= k < idx_0 && #[trigger] V0[k].target_node == x),
                    decreases references@.len() - idx_0,''',
    '''                invariant idx_r <= references@.len(),
                    forall|x: Reference| #[trigger] references@.contains(x) ==> V0.contains(x),
                    forall|x: Reference| #[trigger] V0.contains(x) && x != r0 ==> references@.contains(x),
                    forall|k: int| 0 <= k < idx_r ==> #[trigger] references@[k] != r0,
                    deleted ==> V0.contains(r0), !deleted ==> references@ == V0,
                    reference_type == rt0, !remove_entry,
                decreases references@.len() - idx_r,''',
    '''                    invariant idx_1 <= references@.len(),
                        forall|x: NodeId| #[trigger] coll_1@.contains(x) == (exists|k: int| 0 <= k < idx_1 && #[trigger] references@[k].target_node == x),
                    decreases references@.len() - idx_1,''',
    '''                invariant idx_node <= other_nodes_before.elems().len(),
                    self.references_map@ == m1,
                    forall|t: Triple| #[trigger] has(m1, t) ==> self.referenced_by_map@.contains_key(t.2) && self.referenced_by_map@[t.2]@.contains(t.0),
                decreases other_nodes_before.elems().len() - idx_node,''',
]
DR_BEFORE_LAST = '''            let ghost v1 = references@;
            let ghost m1 = old(self).references_map@.insert(*source_node, *references);
            proof {
                assert forall|t: Triple| #[trigger] has(m1, t) implies has(old(self).references_map@, t) by {
                    if t.0 == *source_node { assert(V0.contains(Reference { reference_type: t.1, target_node: t.2 })); }
                }
            }'''
DR_LAST_HEAD = '                let ghost rb0 = self.referenced_by_map@;'
DR_LAST_TAIL = '''                proof {
                    assert forall|t: Triple| #[trigger] has(m1, t) implies self.referenced_by_map@.contains_key(t.2) && self.referenced_by_map@[t.2]@.contains(t.0) by {
                        assert(rb0.contains_key(t.2) && rb0[t.2]@.contains(t.0));
                        if t.2 == *node && !other_nodes_after@.contains(*node) {
                            assert(t.0 != *source_node) by { assert(has(m1, (*source_node, t.1, *node)) == false); }
                            assert(rb0[*node]@.remove(*source_node).contains(t.0));
                            assert(self.referenced_by_map@.contains_key(t.2));
                        } else if t.2 == *node {
                            assert(self.referenced_by_map@ == rb0);
                        } else {
                            assert(self.referenced_by_map@.contains_key(t.2));
                            assert(self.referenced_by_map@[t.2] == rb0[t.2]);
                        }
                    }
                }'''
DR_MID = '''        let ghost mid = self.references_map@;
        proof {
            assert forall|t: Triple| #[trigger] has(mid, t) implies self.referenced_by_map@.contains_key(t.2) && self.referenced_by_map@[t.2]@.contains(t.0) by {
                if !old(self).references_map@.contains_key(*source_node) { assert(has(old(self).references_map@, t)); }
            }
        }'''
DR_END = '''        proof {
            assert forall|t: Triple| #[trigger] has(self.references_map@, t) implies self.referenced_by_map@.contains_key(t.2) && self.referenced_by_map@[t.2]@.contains(t.0) by {
                assert(has(mid, t));
            }
        }'''
DR_IN_LAST = '''                    proof {
                        // `node` is no longer a target of source: no triple (source, _, node) is left
                        assert forall|ty: NodeId| #[trigger] has(m1, (*source_node, ty, *node)) == false by {
                            if has(m1, (*source_node, ty, *node)) {
                                let k = choose|k: int| 0 <= k < v1.len() && v1[k] == (Reference { reference_type: ty, target_node: *node });
                                assert(v1[k].target_node == *node);
                            }
                        }
                    }'''

CANARY = '''
proof fn canary_references(r: References, t: Triple)
    requires r.index_complete(), r.holds(t),
    ensures false,
{}
'''


def build(manifest):
    rf = Src('server/address_space/references.rs', manifest)
    rewrites = []
    f = {}

    def prep(t):
        t = norm_vis(clean_fn(t))
        t = re.sub(r'^(\s*)fn ', r'\1pub fn ', t, count=1) if not re.match(r'\s*pub ', t) else t
        return instantiate_generic(t, 'T', 'NodeId', rewrites)
    f['new'] = splice_contract(prep(rf.impl_fn(r'^impl Reference \{', 'new')), SPEC['new'][1], SPEC['new'][0])
    for n in ['has_reference', 'insert_reference']:
        f[n] = splice_contract(prep(rf.impl_fn(r'^impl References \{', n)), SPEC[n][1], SPEC[n][0])
    # the reference type on entry (the body shadows the parameter)
    f['insert_reference'] = splice_body_start(f['insert_reference'], '        let ghost rt0 = *reference_type;')
    # delete_reference: closures over iterators as loops (D19 set form, D18, D21 difference form)
    d = prep(rf.impl_fn(r'^impl References \{', 'delete_reference'))
    d = difference_for_each_to_loop(retain_to_loop(map_collect_expr_to_loop(d, rewrites), rewrites), rewrites)
    d = splice_contract(d, SPEC['delete_reference'][1], 'r')
    d = '    #[verifier::loop_isolation(false)]\n' + d
    d = splice_body_start(d, '        let ghost rt0 = reference_type;\n        let ghost r0 = Reference { reference_type: reference_type, target_node: *target_node };')
    if len([r for r in rewrites if r.startswith(('D18', 'D19', 'D21'))]) >= 4:
        for k, inv in enumerate(DR_LOOPS):
            d = splice_loop(d, k, inv.replace('V0', DR_V0))
        d = splice_at(d, r'^\s*if keep_r \{', '                proof { lemma_remove_contains(references@, idx_r as int); }', before=True)
        d = splice_at(d, r'^\s*let mut idx_node: usize = 0;', DR_BEFORE_LAST.replace('V0', DR_V0), before=True)
        d = splice_at(d, r'^\s*if !other_nodes_after\.contains\(node\) \{', DR_IN_LAST, before=False)
        d = splice_at(d, r'^\s*let node = iter_nth\(&other_nodes_before, idx_node\);', DR_LAST_HEAD, before=False)
        d = splice_at(d, r'^\s*idx_node \+= 1;', DR_LAST_TAIL, before=True)
        d = splice_at(d, r'^\s*if remove_entry \{', DR_MID, before=True)
        d = splice_body_end(d, DR_END)
    f['delete_reference'] = d
    for n in END:
        f[n] = splice_body_end(f[n], END[n])
    types = '\n'.join([rf.struct('Reference'), rf.struct('References')])
    a = Asm()
    a.add('use vstd::prelude::*;\nverus! {\nglobal size_of usize == 8;\n', 'prelude', 'env')
    a.add(norm_vis(types), 'types', 'env')
    a.add(ENV, 'env', 'env')
    a.add('impl Reference {')
    a.add(f['new'], 'Reference::new', 'fn')
    a.add('}\nimpl References {')
    for n in ['has_reference', 'insert_reference', 'delete_reference']:
        a.add(f[n], n, 'fn')
    a.add('}')
    add_proof_fns(a, LEMMAS, 'lemma')
    add_proof_fns(a, CANARY, 'canary')
    a.add('}\nfn main() {}\n')
    return dict(asm=a, pid=PID, short=SHORT, clauses={k: v[1] for k, v in SPEC.items()}, twins={}, witness={},
                verus_args=['--triggers-mode', 'silent'],
                assumptions=[])
