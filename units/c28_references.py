"""C28 — Verus unit: the reference store, verbatim (server/address_space/references.rs): Reference::new,
References::{insert_reference, has_reference, delete_reference, remove_node_from_referenced_nodes, delete_node_references}
(generic parameters instantiated at NodeId: D13; closures over iterators as the loops they stand for: D18, D19, D21, D23),
over environment HashMap / HashSet with std's map and set semantics (HashMap::get_mut returning a mutable borrow).

The abstract view of the store is the set of (source, type, target) triples found in the forward map; the representation
invariant says the reverse lookup knows every source of every target (index complete).
Proved for every store satisfying the invariant and every argument: insert_reference adds exactly its triple,
delete_reference removes exactly its triple (never the one in the opposite direction, never another type or target) and
says whether it was there, has_reference answers membership, delete_node_references removes exactly the triples from or
to the node; all of them keep the invariant."""
from extract import *

PID = 'C28'
SHORT = 'references'

ENV = '''
use vstd::std_specs::cmp::PartialEqSpec;
// a node id: namespace index and identifier (the identifier's four forms are not distinguished here)
#[derive(PartialEq, Eq, Structural)]
pub struct NodeId { pub namespace: u16, pub identifier: u64 }
impl Clone for NodeId {
    // #[derive(Clone)]
    fn clone(&self) -> (r: Self) ensures r == *self { NodeId { namespace: self.namespace, identifier: self.identifier } }
}
impl NodeId {
    // Into<NodeId> for NodeId (the generic parameter is instantiated at NodeId: D13)
    pub fn into(self) -> (r: NodeId) ensures r == self { self }
}
impl std::fmt::Display for NodeId {
    #[verifier::external_body]
    fn fmt(&self, f: &mut std::fmt::Formatter<'_>) -> std::fmt::Result { unimplemented!() }
}
// #[derive(PartialEq)] on Reference: field-wise equality
impl vstd::std_specs::cmp::PartialEqSpecImpl for Reference {
    open spec fn obeys_eq_spec() -> bool { true }
    open spec fn eq_spec(&self, other: &Reference) -> bool { *self == *other }
}
impl PartialEq for Reference {
    fn eq(&self, other: &Reference) -> (r: bool) { self.reference_type == other.reference_type && self.target_node == other.target_node }
}
// <[T]>::contains (std): some element equals the argument
pub assume_specification<T: PartialEq> [<[T]>::contains] (s: &[T], x: &T) -> (r: bool)
    ensures T::obeys_eq_spec() ==> r == (exists|i: int| #![trigger s@[i]] 0 <= i < s@.len() && s@[i].eq_spec(x));

// ---- std HashMap / HashSet (std semantics assumed)
#[verifier::external_body]
#[verifier::reject_recursive_types(K)]
#[verifier::reject_recursive_types(V)]
pub struct HashMap<K, V> { k: std::marker::PhantomData<K>, v: std::marker::PhantomData<V> }
impl<K, V> View for HashMap<K, V> { type V = Map<K, V>; uninterp spec fn view(&self) -> Map<K, V>; }
impl<K, V> HashMap<K, V> {
    #[verifier::external_body]
    pub fn get(&self, k: &K) -> (r: Option<&V>)
        ensures match r { Some(v) => self@.contains_key(*k) && *v == self@[*k], None => !self@.contains_key(*k) }
    { unimplemented!() }
    #[verifier::external_body]
    pub fn get_mut(&mut self, k: &K) -> (r: Option<&mut V>)
        ensures match r {
            Some(v) => old(self)@.contains_key(*k) && *v == old(self)@[*k] && final(self)@ == old(self)@.insert(*k, *final(v)),
            None => !old(self)@.contains_key(*k) && final(self)@ == old(self)@ }
    { unimplemented!() }
    #[verifier::external_body]
    pub fn insert(&mut self, k: K, v: V) -> (r: Option<V>) ensures final(self)@ == old(self)@.insert(k, v) { unimplemented!() }
    #[verifier::external_body]
    pub fn remove(&mut self, k: &K) -> (r: Option<V>)
        ensures final(self)@ == old(self)@.remove(*k),
            match r { Some(v) => old(self)@.contains_key(*k) && v == old(self)@[*k], None => !old(self)@.contains_key(*k) }
    { unimplemented!() }
}
#[verifier::external_body]
#[verifier::reject_recursive_types(T)]
pub struct HashSet<T> { t: std::marker::PhantomData<T> }
impl<T> View for HashSet<T> { type V = Set<T>; uninterp spec fn view(&self) -> Set<T>; }
impl<T> HashSet<T> {
    // the elements in iteration order (some order, each once)
    pub uninterp spec fn elems(&self) -> Seq<T>;
    #[verifier::external_body]
    pub proof fn elems_are_the_set(&self)
        ensures self.elems().no_duplicates(), forall|x: T| self.elems().contains(x) == self@.contains(x),
    { unimplemented!() }
    #[verifier::external_body]
    pub fn new() -> (r: HashSet<T>) ensures r@ == Set::<T>::empty() { unimplemented!() }
    #[verifier::external_body]
    pub fn insert(&mut self, x: T) -> (r: bool) ensures final(self)@ == old(self)@.insert(x), r == !old(self)@.contains(x) { unimplemented!() }
    #[verifier::external_body]
    pub fn remove(&mut self, x: &T) -> (r: bool) ensures final(self)@ == old(self)@.remove(*x), r == old(self)@.contains(*x) { unimplemented!() }
    #[verifier::external_body]
    pub fn contains(&self, x: &T) -> (r: bool) ensures r == self@.contains(*x) { unimplemented!() }
    #[verifier::external_body]
    pub fn is_empty(&self) -> (r: bool) ensures r == (self@ == Set::<T>::empty()) { unimplemented!() }
}
// HashSet::difference collected into a new set (rewrite D19, difference form)
#[verifier::external_body]
pub fn set_difference<T>(a: &HashSet<T>, b: &HashSet<T>) -> (r: HashSet<T>) ensures forall|x: T| #[trigger] r@.contains(x) == (a@.contains(x) && !b@.contains(x)) { unimplemented!() }
// iteration over a set (rewrites D21 / D23)
#[verifier::external_body]
pub fn iter_len<T>(s: &HashSet<T>) -> (r: usize) ensures r == s.elems().len() { unimplemented!() }
#[verifier::external_body]
pub fn iter_nth<T>(s: &HashSet<T>, i: usize) -> (r: &T) requires i < s.elems().len(), ensures *r == s.elems()[i as int] { unimplemented!() }

// ---- specification
pub type Triple = (NodeId, NodeId, NodeId);          // (source, reference type, target)
pub open spec fn has(m: Map<NodeId, Vec<Reference>>, t: Triple) -> bool {
    m.contains_key(t.0) && m[t.0]@.contains(Reference { reference_type: t.1, target_node: t.2 })
}
// lookup membership: x is recorded as a source of k
pub open spec fn idx(rb: Map<NodeId, HashSet<NodeId>>, k: NodeId, x: NodeId) -> bool { rb.contains_key(k) && rb[k]@.contains(x) }
impl References {
    // the references held: membership of a triple
    pub open spec fn holds(&self, t: Triple) -> bool { has(self.references_map@, t) }
    // representation invariant: the reverse lookup knows every source of every target
    pub open spec fn index_complete(&self) -> bool {
        forall|t: Triple| #[trigger] has(self.references_map@, t) ==>
            self.referenced_by_map@.contains_key(t.2) && self.referenced_by_map@[t.2]@.contains(t.0)
    }
}
'''

SPEC = {
    'new': ('r', '''        ensures r == (Reference { reference_type, target_node }),'''),
    'has_reference': ('r', '''        ensures r == self.holds((*source_node, reference_type, *target_node)),'''),
    'insert_reference': (None, '''        requires old(self).index_complete(),
            *source_node != *target_node,                // a self reference panics
        ensures final(self).index_complete(),
            // exactly this reference is added (nothing when it was there already)
            forall|t: Triple| #[trigger] final(self).holds(t) == (old(self).holds(t) || t == (*source_node, *reference_type, *target_node)),'''),
}

# ghost blocks placed structurally (end of body / before the tail expression); they mention parameters, old(self) and self only
END = {
    'insert_reference': '''        proof {
            let r0 = Reference { reference_type: rt0, target_node: *target_node };
            let m0 = old(self).references_map@;
            let m1 = self.references_map@;
            if m0.contains_key(*source_node) { lemma_push_contains(m0[*source_node]@, r0); }
            assert(m1.contains_key(*source_node));
            assert(forall|x: Reference| #[trigger] m1[*source_node]@.contains(x) == (x == r0 || (m0.contains_key(*source_node) && m0[*source_node]@.contains(x)))) by {
                if !m0.contains_key(*source_node) { lemma_single_contains(r0); }
            }
            assert forall|t: Triple| #[trigger] self.holds(t) == (old(self).holds(t) || t == (*source_node, rt0, *target_node)) by {
                if t.0 == *source_node {
                    assert(m1[*source_node]@.contains(Reference { reference_type: t.1, target_node: t.2 })
                        == (Reference { reference_type: t.1, target_node: t.2 } == r0 || (m0.contains_key(*source_node) && m0[*source_node]@.contains(Reference { reference_type: t.1, target_node: t.2 }))));
                }
            }
            assert forall|t: Triple| #[trigger] has(self.references_map@, t) implies
                self.referenced_by_map@.contains_key(t.2) && self.referenced_by_map@[t.2]@.contains(t.0) by {
                if t != (*source_node, rt0, *target_node) { assert(has(old(self).references_map@, t)); }
            }
        }''',
}

LEMMAS = '''
proof fn lemma_push_contains(s: Seq<Reference>, x: Reference)
    ensures forall|y: Reference| #[trigger] s.push(x).contains(y) == (s.contains(y) || y == x),
{
    assert forall|y: Reference| #[trigger] s.push(x).contains(y) == (s.contains(y) || y == x) by {
        if s.contains(y) { let i = choose|i: int| 0 <= i < s.len() && s[i] == y; assert(s.push(x)[i] == y); }
        if y == x { assert(s.push(x)[s.len() as int] == x); }
        if s.push(x).contains(y) { let i = choose|i: int| 0 <= i < s.push(x).len() && s.push(x)[i] == y; if i < s.len() { assert(s[i] == y); } }
    }
}
proof fn lemma_remove_contains(s: Seq<Reference>, i: int)
    requires 0 <= i < s.len(),
    ensures forall|x: Reference| #[trigger] s.remove(i).contains(x) ==> s.contains(x),
        forall|x: Reference| #[trigger] s.contains(x) && x != s[i] ==> s.remove(i).contains(x),
        forall|k: int| 0 <= k < i ==> #[trigger] s.remove(i)[k] == s[k],
{
    assert forall|x: Reference| #[trigger] s.remove(i).contains(x) implies s.contains(x) by {
        let k = choose|k: int| 0 <= k < s.remove(i).len() && s.remove(i)[k] == x;
        if k < i { assert(s[k] == x); } else { assert(s[k + 1] == x); }
    }
    assert forall|x: Reference| #[trigger] s.contains(x) && x != s[i] implies s.remove(i).contains(x) by {
        let k = choose|k: int| 0 <= k < s.len() && s[k] == x;
        if k < i { assert(s.remove(i)[k] == x); } else { assert(s.remove(i)[k - 1] == x); }
    }
}
proof fn lemma_single_contains(x: Reference)
    ensures forall|y: Reference| #[trigger] Seq::<Reference>::empty().push(x).contains(y) == (y == x),
{
    lemma_push_contains(Seq::<Reference>::empty(), x);
}
'''

SPEC['delete_reference'] = ('r', '''        requires old(self).index_complete(),
        ensures final(self).index_complete(),
            // exactly this reference goes: not the one in the opposite direction, not another type, not another target
            forall|t: Triple| #[trigger] final(self).holds(t) == (old(self).holds(t) && t != (*source_node, reference_type, *target_node)),
            r == old(self).holds((*source_node, reference_type, *target_node)),''')

# loop invariants of delete_reference (loops 0..3 in the rewritten text: targets before, retain, targets after, reverse lookup)
DR_V0 = 'old(self).references_map@[*source_node]@'
DR_LOOPS = [
    '''                    invariant idx_0 <= references@.len(), references@ == V0,
                        forall|x: NodeId| #[trigger] coll_0@.contains(x) == (exists|k: int| 0 <= k < idx_0 && #[trigger] V0[k].target_node == x),
                    decreases references@.len() - idx_0,''',
    '''                invariant idx_r <= references@.len(),
                    forall|x: Reference| #[trigger] references@.contains(x) ==> V0.contains(x),
                    forall|x: Reference| #[trigger] V0.contains(x) && x != r0 ==> references@.contains(x),
                    forall|k: int| 0 <= k < idx_r ==> #[trigger] references@[k] != r0,
                    deleted ==> V0.contains(r0), !deleted ==> references@ == V0,
                    reference_type == rt0, !remove_entry,
                decreases references@.len() - idx_r,''',
    '''                    invariant idx_1 <= references@.len(),
                        forall|x: NodeId| #[trigger] coll_1@.contains(x) == (exists|k: int| 0 <= k < idx_1 && #[trigger] references@[k].target_node == x),
                    decreases references@.len() - idx_1,''',
    '''                invariant idx_node <= other_nodes_before.elems().len(),
                    self.references_map@ == m1,
                    forall|t: Triple| #[trigger] has(m1, t) ==> self.referenced_by_map@.contains_key(t.2) && self.referenced_by_map@[t.2]@.contains(t.0),
                decreases other_nodes_before.elems().len() - idx_node,''',
]
DR_BEFORE_LAST = '''            let ghost v1 = references@;
            let ghost m1 = old(self).references_map@.insert(*source_node, *references);
            proof {
                assert forall|t: Triple| #[trigger] has(m1, t) implies has(old(self).references_map@, t) by {
                    if t.0 == *source_node { assert(V0.contains(Reference { reference_type: t.1, target_node: t.2 })); }
                }
            }'''
DR_LAST_HEAD = '                let ghost rb0 = self.referenced_by_map@;'
DR_LAST_TAIL = '''                proof {
                    assert forall|t: Triple| #[trigger] has(m1, t) implies self.referenced_by_map@.contains_key(t.2) && self.referenced_by_map@[t.2]@.contains(t.0) by {
                        assert(rb0.contains_key(t.2) && rb0[t.2]@.contains(t.0));
                        if t.2 == *node && !other_nodes_after@.contains(*node) {
                            assert(t.0 != *source_node) by { assert(has(m1, (*source_node, t.1, *node)) == false); }
                            assert(rb0[*node]@.remove(*source_node).contains(t.0));
                            assert(self.referenced_by_map@.contains_key(t.2));
                        } else if t.2 == *node {
                            assert(self.referenced_by_map@ == rb0);
                        } else {
                            assert(self.referenced_by_map@.contains_key(t.2));
                            assert(self.referenced_by_map@[t.2] == rb0[t.2]);
                        }
                    }
                }'''
DR_MID = '''        let ghost mid = self.references_map@;
        proof {
            assert forall|t: Triple| #[trigger] has(mid, t) implies self.referenced_by_map@.contains_key(t.2) && self.referenced_by_map@[t.2]@.contains(t.0) by {
                if !old(self).references_map@.contains_key(*source_node) { assert(has(old(self).references_map@, t)); }
            }
        }'''
DR_END = '''        proof {
            assert forall|t: Triple| #[trigger] has(self.references_map@, t) implies self.referenced_by_map@.contains_key(t.2) && self.referenced_by_map@[t.2]@.contains(t.0) by {
                assert(has(mid, t));
            }
        }'''
DR_IN_LAST = '''                    proof {
                        // `node` is no longer a target of source: no triple (source, _, node) is left
                        assert forall|ty: NodeId| #[trigger] has(m1, (*source_node, ty, *node)) == false by {
                            if has(m1, (*source_node, ty, *node)) {
                                let k = choose|k: int| 0 <= k < v1.len() && v1[k] == (Reference { reference_type: ty, target_node: *node });
                                assert(v1[k].target_node == *node);
                            }
                        }
                    }'''

# lookup membership: x is recorded as a source of k
IDX = 'pub open spec fn idx(rb: Map<NodeId, HashSet<NodeId>>, k: NodeId, x: NodeId) -> bool { rb.contains_key(k) && rb[k]@.contains(x) }'

SPEC['remove_node_from_referenced_nodes'] = (None, '''        requires
            // nothing starts at the node any more, and the reverse lookup is complete except towards the node
            forall|t: Triple| #[trigger] has(old(self).references_map@, t) ==> t.0 != *node_to_remove,
            forall|t: Triple| #[trigger] has(old(self).references_map@, t) ==> t.2 == *node_to_remove || idx(old(self).referenced_by_map@, t.2, t.0),
        ensures
            // exactly the references from the nodes to check to the node are gone
            forall|t: Triple| #[trigger] final(self).holds(t) == (old(self).holds(t) && !(nodes_to_check@.contains(t.0) && t.2 == *node_to_remove)),
            // the reverse lookup forgets the node as a source, nothing else
            forall|k: NodeId, x: NodeId| x != *node_to_remove ==> #[trigger] idx(final(self).referenced_by_map@, k, x) == idx(old(self).referenced_by_map@, k, x),''')

RN_OUTER = '''            invariant idx_node_to_check <= nodes_to_check.elems().len(),
                forall|t: Triple| #[trigger] has(self.references_map@, t) == (has(old(self).references_map@, t)
                    && !(t.2 == *node_to_remove && exists|k: int| 0 <= k < idx_node_to_check && #[trigger] nodes_to_check.elems()[k] == t.0)),
                forall|k: NodeId, x: NodeId| x != *node_to_remove ==> #[trigger] idx(self.referenced_by_map@, k, x) == idx(old(self).referenced_by_map@, k, x),
            decreases nodes_to_check.elems().len() - idx_node_to_check,'''
RN_INNER = '''                        invariant idx_r <= references@.len(),
                            forall|x: Reference| #[trigger] references@.contains(x) ==> w0.contains(x),
                            forall|x: Reference| #[trigger] w0.contains(x) && x.target_node != *node_to_remove ==> references@.contains(x),
                            forall|k: int| 0 <= k < idx_r ==> (#[trigger] references@[k]).target_node != *node_to_remove,
                        decreases references@.len() - idx_r,'''
RN_TAIL = '''            proof {
                let n = *node_to_remove;
                let c = *node_to_check;
                // forward map: only the entry of the node being checked changed, and it lost exactly its references to the node
                assert forall|t: Triple| #[trigger] has(self.references_map@, t) == (has(fm0, t) && !(t.2 == n && t.0 == c)) by {
                    let x = Reference { reference_type: t.1, target_node: t.2 };
                    if t.0 == c {
                        if fm0.contains_key(c) {
                            if self.references_map@.contains_key(c) {
                                assert(self.references_map@[c]@.contains(x) ==> w0.contains(x));
                                assert(w0.contains(x) && x.target_node != n ==> self.references_map@[c]@.contains(x));
                                if self.references_map@[c]@.contains(x) {
                                    let k = choose|k: int| 0 <= k < self.references_map@[c]@.len() && self.references_map@[c]@[k] == x;
                                    assert(self.references_map@[c]@[k].target_node != n);
                                }
                            } else {
                                // the entry was dropped because nothing was left in it
                                if w0.contains(x) && x.target_node != n { assert(false); }
                            }
                        }
                    } else {
                        assert(self.references_map@.contains_key(t.0) == fm0.contains_key(t.0));
                        if fm0.contains_key(t.0) { assert(self.references_map@[t.0] == fm0[t.0]); }
                    }
                }
                // reverse lookup: only the set of the node being checked changed, and it lost at most the node
                assert forall|k: NodeId, x: NodeId| x != n implies #[trigger] idx(self.referenced_by_map@, k, x) == idx(rb0, k, x) by {
                    if k == c {
                        if rb0.contains_key(c) && rb0[c]@.contains(x) { assert(rb0[c]@.remove(n).contains(x)); }
                    } else {
                        assert(self.referenced_by_map@.contains_key(k) == rb0.contains_key(k));
                        if rb0.contains_key(k) { assert(self.referenced_by_map@[k] == rb0[k]); }
                    }
                }
            }'''
RN_END = '''        proof {
            nodes_to_check.elems_are_the_set();
            let e = nodes_to_check.elems();
            assert forall|t: Triple| #[trigger] self.holds(t) == (old(self).holds(t) && !(nodes_to_check@.contains(t.0) && t.2 == *node_to_remove)) by {
                if nodes_to_check@.contains(t.0) {
                    assert(e.contains(t.0));
                    let k = choose|k: int| 0 <= k < e.len() && e[k] == t.0;
                    assert(e[k] == t.0);
                }
                if exists|k: int| 0 <= k < e.len() && #[trigger] e[k] == t.0 {
                    let k = choose|k: int| 0 <= k < e.len() && #[trigger] e[k] == t.0;
                    assert(e.contains(t.0));
                }
            }
        }'''
RN_HEAD = '''            let ghost fm0 = self.references_map@;
            let ghost rb0 = self.referenced_by_map@;
            let ghost w0 = if fm0.contains_key(*node_to_check) { fm0[*node_to_check]@ } else { Seq::<Reference>::empty() };'''

SPEC['delete_node_references'] = ('r', '''        requires old(self).index_complete(),
        ensures final(self).index_complete(),
            // exactly the references from or to the node are gone
            forall|t: Triple| #[trigger] final(self).holds(t) == (old(self).holds(t) && t.0 != *source_node && t.2 != *source_node),
            // and the answer is true when there was one
            (exists|t: Triple| #[trigger] old(self).holds(t) && (t.0 == *source_node || t.2 == *source_node)) ==> r,''')
DN_CALL1_PRE = '''            proof {
                assert forall|t: Triple| #[trigger] has(self.references_map@, t) implies has(old(self).references_map@, t) && t.0 != *source_node by { }
            }'''
DN_MID = '''        let ghost sB = *self;
        proof {
            assert forall|t: Triple| #[trigger] sB.holds(t) implies old(self).holds(t) && t.0 != *source_node by { }
            assert forall|t: Triple| old(self).holds(t) && t.0 != *source_node && t.2 != *source_node implies #[trigger] sB.holds(t) by { }
            assert forall|k: NodeId, x: NodeId| x != *source_node implies #[trigger] idx(sB.referenced_by_map@, k, x) == idx(old(self).referenced_by_map@, k, x) by { }
        }'''
DN_CALL2_PRE = '''            let ghost lm = lookup_map@;
            proof {
                assert forall|t: Triple| #[trigger] has(self.references_map@, t) implies t.0 != *source_node
                    && (t.2 == *source_node || idx(self.referenced_by_map@, t.2, t.0)) by {
                    assert(sB.holds(t));
                    assert(old(self).holds(t));
                    if t.2 != *source_node { assert(idx(sB.referenced_by_map@, t.2, t.0)); }
                }
            }'''
DN_CALL2_POST = '''            proof {
                assert forall|t: Triple| #[trigger] self.holds(t) implies t.2 != *source_node by {
                    if t.2 == *source_node {
                        assert(sB.holds(t));
                        assert(old(self).holds(t));
                        assert(idx(old(self).referenced_by_map@, *source_node, t.0));
                        assert(idx(sB.referenced_by_map@, *source_node, t.0));
                        assert(lm.contains(t.0));
                    }
                }
            }'''
DN_END = '''        proof {
            let n = *source_node;
            assert forall|t: Triple| #[trigger] self.holds(t) implies sB.holds(t) && t.2 != n by {
                if t.2 == n && !sB.referenced_by_map@.contains_key(n) {
                    assert(sB.holds(t));
                    assert(old(self).holds(t));
                    assert(idx(old(self).referenced_by_map@, n, t.0));
                    assert(idx(sB.referenced_by_map@, n, t.0));
                }
            }
            assert forall|t: Triple| sB.holds(t) && t.2 != n implies #[trigger] self.holds(t) by { }
            assert forall|t: Triple| #[trigger] has(self.references_map@, t) implies
                self.referenced_by_map@.contains_key(t.2) && self.referenced_by_map@[t.2]@.contains(t.0) by {
                assert(self.holds(t));
                assert(sB.holds(t));
                assert(old(self).holds(t));
                assert(idx(old(self).referenced_by_map@, t.2, t.0));
                assert(idx(sB.referenced_by_map@, t.2, t.0));
                assert(idx(self.referenced_by_map@, t.2, t.0));
            }
        }'''
DN_LOOP = '''                    invariant idx_0 <= references@.len(),
                    decreases references@.len() - idx_0,'''

CANARY = '''
proof fn canary_references(r: References, t: Triple)
    requires r.index_complete(), r.holds(t),
    ensures false,
{}
'''


def build(manifest):
    rf = Src('server/address_space/references.rs', manifest)
    rewrites = []
    f = {}

    def prep(t):
        t = norm_vis(clean_fn(t))
        t = re.sub(r'^(\s*)fn ', r'\1pub fn ', t, count=1) if not re.match(r'\s*pub ', t) else t
        return instantiate_generic(t, 'T', 'NodeId', rewrites)
    f['new'] = splice_contract(prep(rf.impl_fn(r'^impl Reference \{', 'new')), SPEC['new'][1], SPEC['new'][0])
    for n in ['has_reference', 'insert_reference']:
        f[n] = splice_contract(prep(rf.impl_fn(r'^impl References \{', n)), SPEC[n][1], SPEC[n][0])
    # the reference type on entry (the body shadows the parameter)
    f['insert_reference'] = splice_body_start(f['insert_reference'], '        let ghost rt0 = *reference_type;')
    # delete_reference: closures over iterators as loops (D19 set form, D18, D21 difference form)
    d = prep(rf.impl_fn(r'^impl References \{', 'delete_reference'))
    d = difference_for_each_to_loop(retain_to_loop(map_collect_expr_to_loop(difference_collect_to_env(d, rewrites), rewrites), rewrites), rewrites)
    d = splice_contract(d, SPEC['delete_reference'][1], 'r')
    d = '    #[verifier::loop_isolation(false)]\n' + d
    d = splice_body_start(d, '        let ghost rt0 = reference_type;\n        let ghost r0 = Reference { reference_type: reference_type, target_node: *target_node };')
    nloops = len(re.findall(r'^\s*while\b', d, re.M))
    for k, inv in enumerate(DR_LOOPS[:3]):
        if k < nloops:
            d = splice_loop(d, k, inv.replace('V0', DR_V0))
    if re.search(r'^\s*if keep_r \{', d, re.M):
        d = splice_at(d, r'^\s*if keep_r \{', '                proof { lemma_remove_contains(references@, idx_r as int); }', before=True)
    if re.search(r'^\s*let mut idx_node: usize = 0;', d, re.M):
        # the reverse lookup is corrected by a loop over the nodes that are no longer referenced
        d = splice_loop(d, 3, DR_LOOPS[3])
        d = splice_at(d, r'^\s*let mut idx_node: usize = 0;', DR_BEFORE_LAST.replace('V0', DR_V0), before=True)
        d = splice_at(d, r'^\s*if !other_nodes_after\.contains\(node\) \{', DR_IN_LAST, before=False)
        d = splice_at(d, r'^\s*let node = iter_nth\(&other_nodes_before, idx_node\);', DR_LAST_HEAD, before=False)
        d = splice_at(d, r'^\s*idx_node \+= 1;', DR_LAST_TAIL, before=True)
    if True:
        d = splice_at(d, r'^\s*if remove_entry \{', DR_MID, before=True)
        d = splice_body_end(d, DR_END)
    f['delete_reference'] = d
    # remove_node_from_referenced_nodes: D21 (set form) and D18
    g = prep(rf.impl_fn(r'^impl References \{', 'remove_node_from_referenced_nodes'))
    g = set_for_each_to_loop(retain_to_loop(g, rewrites), rewrites)
    g = splice_contract(g, SPEC['remove_node_from_referenced_nodes'][1], None)
    g = '    #[verifier::loop_isolation(false)]\n' + g
    g = splice_loop(g, 0, RN_OUTER)
    g = splice_loop(g, 1, RN_INNER)
    g = splice_at(g, r'^\s*let node_to_check = iter_nth\(&nodes_to_check, idx_node_to_check\);', RN_HEAD, before=False)
    g = splice_at(g, r'^\s*if keep_r \{', '                        proof { lemma_remove_contains(references@, idx_r as int); }', before=True)
    g = splice_at(g, r'^\s*idx_node_to_check \+= 1;', RN_TAIL, before=True)
    g = splice_body_end(g, RN_END)
    f['remove_node_from_referenced_nodes'] = g
    # delete_node_references: D19 (set form)
    h = map_collect_expr_to_loop(prep(rf.impl_fn(r'^impl References \{', 'delete_node_references')), rewrites)
    h = splice_contract(h, SPEC['delete_node_references'][1], 'r')
    h = '    #[verifier::loop_isolation(false)]\n' + h
    if re.search(r'^\s*while\b', h, re.M):
        h = splice_loop(h, 0, DN_LOOP)
    # proof hints go where the corresponding statements are; a statement that is not there gets no hint (and the contract decides)
    ncalls = len(re.findall(r'^\s*self\.remove_node_from_referenced_nodes\(', h, re.M))
    has_mid = re.search(r'^\s*let deleted_lookups = ', h, re.M) is not None
    if ncalls >= 1:
        h = splice_at(h, r'^\s*self\.remove_node_from_referenced_nodes\(', DN_CALL1_PRE, before=True, occurrence=0)
    if has_mid:
        h = splice_at(h, r'^\s*let deleted_lookups = ', DN_MID, before=True)
        if ncalls >= 2:
            h = splice_at(h, r'^\s*self\.remove_node_from_referenced_nodes\(', DN_CALL2_PRE, before=True, occurrence=1)
            h = splice_at(h, r'^\s*self\.remove_node_from_referenced_nodes\(', DN_CALL2_POST, before=False, occurrence=1)
        h = splice_body_end(h, DN_END)
    f['delete_node_references'] = h
    for n in END:
        f[n] = splice_body_end(f[n], END[n])
    types = '\n'.join([rf.struct('Reference'), rf.struct('References')])
    a = Asm()
    a.add('use vstd::prelude::*;\nverus! {\nglobal size_of usize == 8;\n', 'prelude', 'env')
    a.add(norm_vis(types), 'types', 'env')
    a.add(ENV, 'env', 'env')
    a.add('impl Reference {')
    a.add(f['new'], 'Reference::new', 'fn')
    a.add('}\nimpl References {')
    for n in ['has_reference', 'insert_reference', 'delete_reference', 'remove_node_from_referenced_nodes', 'delete_node_references']:
        a.add(f[n], n, 'fn')
    a.add('}')
    add_proof_fns(a, LEMMAS, 'lemma')
    add_proof_fns(a, CANARY, 'canary')
    a.add('}\nfn main() {}\n')
    return dict(asm=a, pid=PID, short=SHORT, clauses={k: v[1] for k, v in SPEC.items()}, twins={}, witness={},
                verus_args=['--triggers-mode', 'silent'],
                assumptions=['C28: std HashMap::{get, get_mut, insert, remove} and HashSet::{new, insert, remove, contains, is_empty, difference} have map / set '
                             'semantics (environment types; get_mut hands out a mutable borrow of the stored value); a HashSet is iterated in some '
                             'order, each element once; <[T]>::contains finds an equal element; Vec::remove / push / retain as vstd specifies them',
                             'C28: rewrites D13 (T instantiated at NodeId, `x.into()` the identity), D18 (retain), D19 (map(..).collect() into a HashSet), '
                             'D21 (for_each over a set / over a set difference) — each closure over an iterator becomes the loop it stands for',
                             'C28: NodeId is seen as (namespace, identifier) with field-wise equality; #[derive(PartialEq)] on Reference is field-wise',
                             'C28: the reverse lookup is proved COMPLETE (every source of every target is recorded), which is what '
                             'delete_node_references needs; that it holds no stale entries (find_inverse_references reporting only existing references) '
                             'follows from find_inverse_references re-checking the forward map, which is not under contract (iterator adapters), as are '
                             'find_references / filter_references_by_type / find_references_by_direction (reference type filters over subtypes)',
                             'C28: insert_reference is called with source != target (it panics otherwise; the node management service checks it: C34)'])
