"""C22 — Verus unit: what the subscription does with the action returned by update_state.
Subscription::handle_state_result + enqueue_notification (verbatim) and the real core::handle::Handle::{next,set_next}:
ReturnKeepAlive enqueues exactly one keep-alive message with the next sequence number, SubscriptionExpired enqueues
exactly one BadTimeout status change, None/SubscriptionCreated enqueue nothing; the sanity panic is unreachable."""
from extract import *

PID = 'C22'
SHORT = 'actions'

ENV = '''
use std::collections::VecDeque;
pub assume_specification<T, A: std::alloc::Allocator> [VecDeque::<T, A>::is_empty] (v: &VecDeque<T, A>) -> (r: bool)
    ensures r == (v@.len() == 0);
#[derive(Clone, Copy, PartialEq, Eq, Structural)]
pub struct DateTime { pub ticks: i64 }
#[derive(Clone, Copy, PartialEq, Eq, Structural)]
pub struct DateTimeUtc { pub ticks: i64 }
impl DateTime {
    #[verifier::external_body]
    pub fn from(d: DateTimeUtc) -> (r: DateTime) ensures r.ticks == d.ticks { unimplemented!() }
}
// what a notification message is, as far as this unit is concerned
#[derive(Clone, Copy, PartialEq, Eq, Structural)]
pub enum MsgKind { KeepAlive, StatusChange(StatusCode), Data }
pub struct NotificationMessage { pub sequence_number: u32, pub publish_time: DateTime, pub kind: MsgKind }
impl NotificationMessage {
    // types/notification_message.rs: a keep-alive has no notification data, a status change carries the status
    pub fn keep_alive(sequence_number: u32, publish_time: DateTime) -> (r: NotificationMessage)
        ensures r.sequence_number == sequence_number, r.kind == MsgKind::KeepAlive, r.publish_time == publish_time
    { NotificationMessage { sequence_number, publish_time, kind: MsgKind::KeepAlive } }
    pub fn status_change(sequence_number: u32, publish_time: DateTime, status: StatusCode) -> (r: NotificationMessage)
        ensures r.sequence_number == sequence_number, r.kind == MsgKind::StatusChange(status), r.publish_time == publish_time
    { NotificationMessage { sequence_number, publish_time, kind: MsgKind::StatusChange(status) } }
}
pub struct MonitoredItems { pub n: usize }
impl MonitoredItems {
    pub fn clear(&mut self) ensures final(self).n == 0 { self.n = 0; }
}

// the sequence number expected after `last` (1 after u32::MAX, as in enqueue_notification)
pub open spec fn seq_after(last: u32) -> u32 { if last == u32::MAX { 1 } else { (last + 1) as u32 } }
// the handle hands out exactly the number the queue expects next
pub open spec fn seq_inv(s: Subscription) -> bool {
    s.sequence_number.next == seq_after(s.last_sequence_number) && s.sequence_number.first == 1
}
'''

SPEC = {
    'next': ('r', '''        ensures r == old(self).next, final(self).first == old(self).first,
            final(self).next == (if old(self).next == u32::MAX { old(self).first } else { (old(self).next + 1) as u32 }),'''),
    'set_next': (None, '''        ensures final(self).next == next, final(self).first == old(self).first,'''),
    'enqueue_notification': (None, '''        requires notification.sequence_number == seq_after(old(self).last_sequence_number),
        ensures final(self).notifications@ == old(self).notifications@.push(notification),
            final(self).last_sequence_number == notification.sequence_number,
            final(self).sequence_number == old(self).sequence_number, final(self).monitored_items == old(self).monitored_items,
            final(self).state == old(self).state,'''),
    'ready_to_remove': ('r', '''        ensures
            // a subscription is only dropped once it is closed AND every queued message (in particular the BadTimeout
            // status change of an expiry) has been taken by a publish response
            r ==> (self.state == SubscriptionState::Closed && self.notifications@.len() == 0),'''),
    'handle_state_result': (None, '''        requires old(self).sequence_number.first == 1,
            // without a collected notification the handle and the queue are in step ...
            notification is None ==> seq_inv(*old(self)),
            // ... and a notification handed in by tick_monitored_items took the number the handle issued last, so the handle is one ahead
            notification is Some ==> notification->Some_0.sequence_number == seq_after(old(self).last_sequence_number)
                && old(self).sequence_number.next == seq_after(seq_after(old(self).last_sequence_number)),
            // tick only collects notifications in states where these actions are impossible (Closed/Creating give None)
            (update_state_result.update_state_action == UpdateStateAction::SubscriptionCreated
                || update_state_result.update_state_action == UpdateStateAction::SubscriptionExpired) ==> notification is None,
        ensures
            match update_state_result.update_state_action {
                // exactly one keep-alive message, carrying the next sequence number, stamped `now`
                UpdateStateAction::ReturnKeepAlive => ({
                    let q = final(self).notifications@;
                    &&& q.len() == old(self).notifications@.len() + 1
                    &&& q.subrange(0, q.len() - 1) == old(self).notifications@
                    &&& q.last().kind == MsgKind::KeepAlive
                    &&& q.last().sequence_number == seq_after(old(self).last_sequence_number)
                    &&& q.last().publish_time.ticks == now.ticks
                }),
                // exactly one status change BadTimeout, and the monitored items are gone
                UpdateStateAction::SubscriptionExpired => ({
                    let q = final(self).notifications@;
                    &&& q.len() == old(self).notifications@.len() + 1
                    &&& q.subrange(0, q.len() - 1) == old(self).notifications@
                    &&& q.last().kind == MsgKind::StatusChange(StatusCode::BadTimeout)
                    &&& q.last().sequence_number == seq_after(old(self).last_sequence_number)
                    &&& final(self).monitored_items.n == 0
                }),
                UpdateStateAction::ReturnNotifications => (match notification {
                    Some(n) => final(self).notifications@ == old(self).notifications@.push(n),
                    None => final(self).notifications@ == old(self).notifications@,
                }),
                // nothing is sent now, but a notification that was collected from the monitored items is not lost:
                // it waits in the queue for the next publish request (C21)
                UpdateStateAction::None => NONE_CLAUSE,
                _ => final(self).notifications@ == old(self).notifications@,
            },
            // the handle and the queue stay in step, so the next call can rely on seq_inv again
            seq_inv(*final(self)),'''),
}

CANARY = '''
proof fn canary_actions(s: Subscription)
    requires seq_inv(s), s.last_sequence_number == u32::MAX,
    ensures false,
{}
// the precondition of handle_state_result with a collected notification is satisfiable
proof fn canary_actions_with_notification(s: Subscription, n: NotificationMessage)
    requires s.sequence_number.first == 1, n.sequence_number == seq_after(s.last_sequence_number),
        s.sequence_number.next == seq_after(seq_after(s.last_sequence_number)), s.last_sequence_number == 7,
    ensures false,
{}
'''


NONE_C21 = """(match notification {
                    Some(n) => final(self).notifications@ == old(self).notifications@.push(n),
                    None => final(self).notifications@ == old(self).notifications@,
                })"""
# read for C22 only "no keep-alive or status message is added" matters here; whether the collected notification is kept is C21's clause
NONE_C22 = """(final(self).notifications@ == old(self).notifications@
                    || (notification is Some && final(self).notifications@ == old(self).notifications@.push(notification->Some_0)))"""


def build(manifest, pid=PID):
    sub = Src('server/subscriptions/subscription.rs', manifest)
    hd = Src('core/handle.rs', manifest)
    types = '\n'.join([
        sub.enum('SubscriptionState'), sub.enum('UpdateStateAction'), sub.enum('HandledState'), sub.struct('UpdateStateResult'),
        hd.struct('Handle', derive='Clone, Copy, PartialEq, Eq, Structural'),
        sub.struct('Subscription', keep_fields=['monitored_items', 'state', 'sequence_number', 'last_sequence_number', 'notifications']),
    ])
    # D3 (typed slice): the map of monitored items is only cleared here; it is replaced by an environment type with clear()
    types2 = types.replace('HashMap<u32, MonitoredItem>', 'MonitoredItems')
    if types2 == types:
        raise Undecided('lost anchor: monitored_items field type')
    f = {}
    for n in ['next', 'set_next']:
        f[n] = splice_contract(norm_vis(clean_fn(hd.impl_fn(r'^impl Handle \{', n))), SPEC[n][1], SPEC[n][0])
    for n in ['ready_to_remove', 'enqueue_notification', 'handle_state_result']:
        t = norm_vis(clean_fn(sub.impl_fn(r'^impl Subscription \{', n)))
        t = re.sub(r'^(\s*)fn ', r'\1pub fn ', t, count=1) if not re.match(r'\s*pub ', t) else t
        f[n] = splice_contract(t, SPEC[n][1].replace('NONE_CLAUSE', NONE_C21 if pid == 'C21' else NONE_C22), SPEC[n][0])
    # `DateTime::from(*now)` is the From<DateTimeUtc> conversion: kept as a call of the environment function DateTime::from
    a = Asm()
    a.add('#![feature(allocator_api)]\nuse vstd::prelude::*;\nverus! {\nglobal size_of usize == 8;\n', 'prelude', 'env')
    a.add(status_code_struct(manifest), 'status codes', 'env')      # every status code of the real file (D14)
    a.add(ENV, 'env', 'env')
    a.add(norm_vis(types2), 'types', 'env')
    a.add('impl Handle {')
    a.add(f['next'], 'Handle::next', 'fn')
    a.add(f['set_next'], 'Handle::set_next', 'fn')
    a.add('}\nimpl Subscription {')
    a.add(f['ready_to_remove'], 'ready_to_remove', 'fn')
    a.add(f['enqueue_notification'], 'enqueue_notification', 'fn')
    a.add(f['handle_state_result'], 'handle_state_result', 'fn')
    a.add('}')
    add_proof_fns(a, CANARY, 'canary')
    a.add('}\nfn main() {}\n')
    return dict(asm=a, pid=pid, short=SHORT, clauses={k: v[1] for k, v in SPEC.items()}, twins={}, witness={},
                assumptions=['C22: tick_monitored_items obtains the sequence number of a collected notification from '
                             'self.sequence_number.next() immediately before handle_state_result runs, and collects nothing in the '
                             'Closed/Creating states (call site not extracted: it needs the address space)'])
