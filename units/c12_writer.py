"""C12 (sender half, server side) — Verus unit: MessageWriter::write and MessageWriter::next_request_id
(core/comms/message_writer.rs), verbatim except for rewrite D15 (the by-value loop `for chunk in chunks` becomes an index
loop over references), with Chunker::encode as environment carrying the contract proved in unit c07_encode and
SecureChannel::apply_security as environment.

Proved: a message is numbered on from the last number sent (first chunk = last + 1) and the counter advances by the number
of chunks; a message refused by the encoder or for having too many chunks leaves the counter unchanged; every chunk is
secured and written to the buffer in order; request ids handed out increase by one."""
from extract import *

PID = 'C12'
SHORT = 'writer'

ENV = '''
pub struct SupportedMessage { pub x: u64 }
pub struct MessageChunk { pub data: Vec<u8> }
pub uninterp spec fn c_seq(c: MessageChunk) -> u32;
pub uninterp spec fn c_req(c: MessageChunk) -> u32;
// what apply_security puts on the wire for a chunk (units c07_send / c07_sizes), at most 1024 bytes more than the chunk
pub uninterp spec fn spec_secured(c: &SecureChannel, chunk: MessageChunk) -> Seq<u8>;
pub struct SecureChannel { pub x: u64 }
impl SecureChannel {
    #[verifier::external_body]
    pub fn apply_security(&self, message_chunk: &MessageChunk, dst: &mut [u8]) -> (r: Result<usize, StatusCode>)
        ensures final(dst)@.len() == old(dst)@.len(),
            r is Ok ==> r->Ok_0 <= old(dst)@.len() && final(dst)@.subrange(0, r->Ok_0 as int) == spec_secured(self, *message_chunk),
    { unimplemented!() }
}
pub struct Chunker;
impl Chunker {
    // Chunker::encode, contract as proved in unit c07_encode
    #[verifier::external_body]
    pub fn encode(sequence_number: u32, request_id: u32, max_message_size: usize, max_chunk_size: usize,
                  secure_channel: &SecureChannel, supported_message: &SupportedMessage) -> (r: Result<Vec<MessageChunk>, StatusCode>)
        ensures r is Ok ==> 1 <= r->Ok_0@.len() <= 0x7fff_ffff     // no more chunks than the message has bytes
            && forall|i: int| 0 <= i < r->Ok_0@.len() ==> c_seq(#[trigger] r->Ok_0@[i]) == sequence_number + i && c_req(r->Ok_0@[i]) == request_id,
    { unimplemented!() }
}
pub struct IoError { pub x: u8 }
// std::io::Cursor<Vec<u8>> as the outgoing buffer: `written` is what has been appended by write()
pub struct Cursor { pub inner: Vec<u8>, pub written: Ghost<Seq<Seq<u8>>> }
impl Cursor {
    #[verifier::external_body]
    pub fn get_ref(&self) -> (r: &Vec<u8>) ensures r@ == self.inner@ { unimplemented!() }
    #[verifier::external_body]
    pub fn write(&mut self, buf: &[u8]) -> (r: Result<usize, IoError>)
        ensures final(self).inner@.len() == old(self).inner@.len(),
            r is Ok ==> final(self).written@ == old(self).written@.push(buf@),
            r is Err ==> final(self).written@ == old(self).written@,
    { unimplemented!() }
}
'''

SPEC = {
    'write': ('r', '''        requires old(self).last_sent_sequence_number < 0x7fff_ffff, old(self).buffer.inner@.len() <= 0x7fff_0000,
        ensures
            final(self).last_request_id == old(self).last_request_id,
            r is Ok ==> r->Ok_0 == request_id && ({
                let n = final(self).buffer.written@.len() - old(self).buffer.written@.len();
                // every chunk of the message went into the buffer, in order, and the counter moved on by their number
                &&& n >= 1 && (old(self).max_chunk_count > 0 ==> n <= old(self).max_chunk_count)
                &&& final(self).last_sent_sequence_number == old(self).last_sent_sequence_number + n
                &&& final(self).buffer.written@.subrange(0, old(self).buffer.written@.len() as int) == old(self).buffer.written@
            }),
            // a message that is refused before anything is written leaves the counter alone
            (r is Err && final(self).last_sent_sequence_number != old(self).last_sent_sequence_number)
                ==> final(self).last_sent_sequence_number > old(self).last_sent_sequence_number,'''),
    'next_request_id': ('r', '''        requires old(self).last_request_id < u32::MAX,
        ensures r == old(self).last_request_id + 1, final(self).last_request_id == r,
            final(self).last_sent_sequence_number == old(self).last_sent_sequence_number,'''),
}

CANARY = '''
proof fn canary_writer(w: MessageWriter)
    requires w.last_sent_sequence_number < 0x7fff_ffff, w.buffer.inner@.len() <= 0x7fff_0000, w.max_chunk_count == 3,
    ensures false,
{}
'''


def build(manifest):
    mw = Src('core/comms/message_writer.rs', manifest)
    rewrites = []
    f = {}
    f['write'] = vec_to_index_loop(norm_vis(clean_fn(mw.impl_fn(r'^impl MessageWriter \{', 'write'))), rewrites)
    f['next_request_id'] = norm_vis(clean_fn(mw.impl_fn(r'^impl MessageWriter \{', 'next_request_id')))
    for k in f:
        f[k] = splice_contract(f[k], SPEC[k][1], SPEC[k][0])
    g = f['write']
    g = full_slice_mut_opt(g)
    if rewrites:
        g = splice_at(g, r'^\s*let mut idx_chunk: usize = 0;', '            let ghost w0 = self.buffer.written@;', before=True)
        g = splice_loop(g, 0, '''                invariant idx_chunk <= chunks@.len(), 1 <= chunks@.len() <= 0x7fff_ffff,
                    data@.len() == data_buffer_size,
                    self.last_request_id == old(self).last_request_id, self.max_chunk_count == old(self).max_chunk_count,
                    self.last_sent_sequence_number == old(self).last_sent_sequence_number + chunks@.len(),
                    self.buffer.written@.len() == w0.len() + idx_chunk, w0 == old(self).buffer.written@,
                    self.buffer.written@.subrange(0, w0.len() as int) == w0,
                    forall|k: int| 0 <= k < idx_chunk ==> #[trigger] self.buffer.written@[w0.len() + k] == spec_secured(secure_channel, chunks@[k]),
                decreases chunks@.len() - idx_chunk,''')
    f['write'] = g
    types = mw.struct('MessageWriter')
    types = types.replace('Cursor<Vec<u8>>', 'Cursor')
    a = Asm()
    a.add('use vstd::prelude::*;\nverus! {\nglobal size_of usize == 8;\n', 'prelude', 'env')
    a.add(status_code_struct(manifest), 'status codes', 'env')      # every status code of the real file (D14)
    a.add(ENV, 'env', 'env')
    a.add(norm_vis(types), 'types', 'env')
    a.add('impl MessageWriter {')
    a.add(f['write'], 'MessageWriter::write', 'fn')
    a.add(f['next_request_id'], 'MessageWriter::next_request_id', 'fn')
    a.add('}')
    add_proof_fns(a, CANARY, 'canary')
    a.add('}\nfn main() {}\n')
    return dict(asm=a, pid=PID, short=SHORT, clauses={k: v[1] for k, v in SPEC.items()}, twins={}, witness={},
                assumptions=['C12: rewrite D15 (by-value form) — `for chunk in chunks` in MessageWriter::write becomes an index loop over references',
                             'C12: SecureChannel::apply_security and std::io::Cursor::write are environment (what is written for a chunk is an '
                             'uninterpreted function of channel and chunk); the counter is advanced before the chunks are secured, so a '
                             'failure while securing leaves the counter advanced (stated in the contract, not a claim of atomicity)'])


def full_slice_mut_opt(g):
    # `&mut data` passed as &mut [u8]: `data` is a Vec; Verus wants an explicit slice (D10 applied when the pattern occurs)
    return g.replace('secure_channel.apply_security(&chunk, &mut data)', 'secure_channel.apply_security(&chunk, data.as_mut_slice())')
