"""C10 (server transport) — Verus unit: TcpTransport::process_chunk (server/comms/tcp_transport.rs), verbatim except
for rewrite D15 (`for pending_chunk in self.pending_chunks.iter()` becomes an index loop), with the repository's lock
macros extracted as they are, the secure channel behind its lock as environment and process_final_chunk (drains the
pending chunks into a message) as environment.

Proved for any sequence of chunks: after every call the chunks held for the incomplete message are at most
max_chunk_count (when that limit is set) and at most max_message_size bytes (when that limit is set); a chunk that would
exceed either limit is not buffered, everything held is dropped and the call fails (which closes the connection)."""
from extract import *

PID = 'C10'
SHORT = 'transport'

ENV = '''
pub struct DecodingOptions { pub max_chunk_count: usize, pub max_message_size: usize }
pub struct MessageChunk { pub data: Vec<u8> }
impl MessageChunk {
    #[verifier::external_body]
    pub fn message_header(&self, decoding_options: &DecodingOptions) -> (r: Result<MessageChunkHeader, StatusCode>) { unimplemented!() }
}
pub struct Message { pub x: u64 }
pub struct UnboundedSender<T> { pub x: Option<T> }
// the secure channel behind its lock (single-threaded view): the limits it holds do not change while a chunk is processed
pub struct SecureChannel { pub decoding_options: DecodingOptions }
pub struct RwLock<T> { pub v: T }
pub struct Arc<T> { pub v: T }
pub struct ChannelGuard { pub c: SecureChannel }
impl Arc<RwLock<SecureChannel>> {
    #[verifier::external_body] pub fn read(&self) -> (r: ChannelGuard) ensures r.c == self.v.v { unimplemented!() }
    #[verifier::external_body] pub fn write(&self) -> (r: ChannelGuard) ensures r.c == self.v.v { unimplemented!() }
}
impl ChannelGuard {
    #[verifier::external_body]
    pub fn decoding_options(&self) -> (r: DecodingOptions) ensures r == self.c.decoding_options { unimplemented!() }
    // SecureChannel::verify_and_remove_security (units c09 / c08 / c07_receive): the delivered chunk is no longer than the received one
    #[verifier::external_body]
    pub fn verify_and_remove_security(&mut self, src: &[u8]) -> (r: Result<MessageChunk, StatusCode>)
        ensures r is Ok ==> r->Ok_0.data@.len() <= src@.len(),
    { unimplemented!() }
}
impl TcpTransport {
    // process_final_chunk: `self.pending_chunks.drain(..).collect()`, then validation, decoding and dispatch
    #[verifier::external_body]
    pub fn process_final_chunk(&mut self, message_header: &MessageChunkHeader, sender: &mut UnboundedSender<Message>) -> (r: Result<(), StatusCode>)
        ensures final(self).pending_chunks@.len() == 0, final(self).secure_channel == old(self).secure_channel,
    { unimplemented!() }
}

// ---- specification
pub open spec fn total_len(cs: Seq<MessageChunk>) -> int
    decreases cs.len()
{
    if cs.len() == 0 { 0 } else { total_len(cs.drop_last()) + cs.last().data@.len() }
}
// what the server holds for an incomplete message respects the limits it announced
pub open spec fn bounded(t: TcpTransport) -> bool {
    let o = t.secure_channel.v.v.decoding_options;
    &&& (o.max_chunk_count > 0 ==> t.pending_chunks@.len() <= o.max_chunk_count)
    &&& (o.max_message_size > 0 ==> total_len(t.pending_chunks@) <= o.max_message_size)
}
'''

SPEC = {
    'process_chunk': (None, '''        requires bounded(*old(self)),
            total_len(old(self).pending_chunks@) + chunk.data@.len() <= usize::MAX,     // the chunks are in memory
        ensures bounded(*final(self)),
            final(self).secure_channel == old(self).secure_channel,
            // never more than one chunk more than before
            final(self).pending_chunks@.len() <= old(self).pending_chunks@.len() + 1,'''),
}

LEMMAS = '''
proof fn lemma_total_step(cs: Seq<MessageChunk>, i: int)
    requires 0 <= i < cs.len(),
    ensures total_len(cs.subrange(0, i + 1)) == total_len(cs.subrange(0, i)) + cs[i].data@.len(),
{
    assert(cs.subrange(0, i + 1).drop_last() =~= cs.subrange(0, i));
}
proof fn lemma_total_mono(cs: Seq<MessageChunk>, i: int)
    requires 0 <= i <= cs.len(),
    ensures 0 <= total_len(cs.subrange(0, i)) <= total_len(cs),
    decreases cs.len() - i,
{
    if i < cs.len() {
        lemma_total_step(cs, i);
        lemma_total_mono(cs, i + 1);
    } else {
        assert(cs.subrange(0, i) =~= cs);
    }
    lemma_total_nonneg(cs.subrange(0, i));
}
proof fn lemma_total_nonneg(cs: Seq<MessageChunk>)
    ensures total_len(cs) >= 0,
    decreases cs.len(),
{
    if cs.len() > 0 { lemma_total_nonneg(cs.drop_last()); }
}
proof fn lemma_total_push(cs: Seq<MessageChunk>, c: MessageChunk)
    ensures total_len(cs.push(c)) == total_len(cs) + c.data@.len(),
{
    assert(cs.push(c).drop_last() =~= cs);
}
'''

CANARY = '''
proof fn canary_transport(t: TcpTransport)
    requires bounded(t), t.secure_channel.v.v.decoding_options.max_chunk_count == 5, t.pending_chunks@.len() == 5,
    ensures false,
{}
'''


def macro_def(src, name):
    t, _ = src.item(r'^macro_rules! ' + name + r'\b', name='macro ' + name, with_attrs=False)
    return strip_line_comments(t)


def build(manifest):
    tt = Src('server/comms/tcp_transport.rs', manifest)
    mc = Src('core/comms/message_chunk.rs', manifest)
    lb = Src('lib.rs', manifest)
    rewrites = []
    f = norm_vis(clean_fn(tt.impl_fn(r'^impl TcpTransport \{', 'process_chunk')))
    f = iter_to_index_loop(f, rewrites)
    f = re.sub(r'^(\s*)fn ', r'\1pub fn ', f, count=1) if not re.match(r'\s*pub ', f) else f
    f = f.replace('std::result::Result<', 'Result<')
    f = splice_contract(f, SPEC['process_chunk'][1], None)
    if rewrites:
        f = splice_loop(f, 0, '''                invariant idx_pending_chunk <= self.pending_chunks@.len(), *self == *old(self),
                    pending_size == chunk.data@.len() + total_len(self.pending_chunks@.subrange(0, idx_pending_chunk as int)),
                    total_len(self.pending_chunks@) + chunk.data@.len() <= usize::MAX,
                decreases self.pending_chunks@.len() - idx_pending_chunk,''')
        f = splice_at(f, r'^\s*pending_size \+= ', '                proof { lemma_total_step(self.pending_chunks@, idx_pending_chunk as int); lemma_total_mono(self.pending_chunks@, idx_pending_chunk as int + 1); }', before=True)
        f = splice_at(f, r'^\s*self\.pending_chunks\.push\(chunk\);', '            proof { assert(self.pending_chunks@.subrange(0, self.pending_chunks@.len() as int) =~= self.pending_chunks@); lemma_total_push(self.pending_chunks@, chunk); }', before=True)
    types = '\n'.join([mc.enum('MessageChunkType'), mc.enum('MessageIsFinalType'), mc.struct('MessageChunkHeader'), tt.struct('TcpTransport', keep_fields=['secure_channel', 'pending_chunks'])])
    a = Asm()
    a.add('use vstd::prelude::*;\n' + macro_def(lb, 'trace_read_lock') + '\n' + macro_def(lb, 'trace_write_lock') + '\nverus! {\nglobal size_of usize == 8;\n', 'prelude', 'env')
    a.add(norm_vis(types), 'types', 'env')
    a.add(status_code_struct(manifest), 'status codes', 'env')      # every status code of the real file (D14)
    a.add(ENV, 'env', 'env')
    a.add('impl TcpTransport {')
    a.add(f, 'TcpTransport::process_chunk', 'fn')
    a.add('}')
    add_proof_fns(a, LEMMAS, 'lemma')
    add_proof_fns(a, CANARY, 'canary')
    a.add('}\nfn main() {}\n')
    return dict(asm=a, pid=PID, short=SHORT, clauses={k: v[1] for k, v in SPEC.items()}, twins={}, witness={},
                assumptions=['C10: single-threaded view of the secure channel lock (the repository\'s lock macros extracted as they are): the '
                             'decoding options it holds do not change while a chunk is processed; verify_and_remove_security delivers a '
                             'chunk no longer than the received one (what is stripped: units c07_receive / c09)',
                             'C10: process_final_chunk drains the pending chunks (`drain(..).collect()`); rewrite D15 for the size loop',
                             'C10: that an Err from process_chunk closes the connection is the `?` in the async read loop (not under contract); '
                             'the client side (TransportState, max_pending_incoming) is not under contract'])
