"""C15 (server transport) — Verus unit: TcpTransport::process_final_chunk (server/comms/tcp_transport.rs), verbatim
except for one call-site rewrite (`self.pending_chunks.drain(..).collect()` becomes a call of an environment function that
takes all pending chunks), with the repository's lock macros extracted as they are.

The property is put on the environment as PRECONDITIONS of the three handlers the function dispatches to: a service
message (process_message) and a CloseSecureChannel (process_close_secure_channel) may only be handed on once a secure
channel has been issued on the connection (channel id != 0); Verus checks them at the call sites for every chunk type and
channel state. Also proved: the chunk list is not empty where its first element is indexed."""
from extract import *

PID = 'C15'
SHORT = 'order'

ENV = '''
pub struct SecurityHeader { pub x: u64 }
pub struct SequenceHeader { pub sequence_number: u32, pub request_id: u32 }
pub struct ChunkInfo { pub security_header: SecurityHeader, pub sequence_header: SequenceHeader }
pub struct MessageChunk { pub data: Vec<u8> }
pub struct SupportedMessage { pub x: u64 }
pub struct Message { pub x: u64 }
pub struct UnboundedSender<T> { pub x: Option<T> }
impl<T> Clone for UnboundedSender<T> { #[verifier::external_body] fn clone(&self) -> (r: Self) { unimplemented!() } }
pub struct MessageSender { pub sender: UnboundedSender<Message> }
pub struct SecureChannel { pub secure_channel_id: u32 }
pub struct RwLock<T> { pub v: T }
pub struct Arc<T> { pub v: T }
pub struct ChannelGuard { pub c: SecureChannel }
impl Arc<RwLock<SecureChannel>> {
    #[verifier::external_body] pub fn read(&self) -> (r: ChannelGuard) ensures r.c == self.v.v { unimplemented!() }
}
impl ChannelGuard {
    pub fn secure_channel_id(&self) -> (r: u32) ensures r == self.c.secure_channel_id { self.c.secure_channel_id }
}
impl MessageChunk {
    #[verifier::external_body]
    pub fn chunk_info(&self, secure_channel: &ChannelGuard) -> (r: Result<ChunkInfo, StatusCode>) { unimplemented!() }
}
// `self.pending_chunks.drain(..).collect()`: takes every pending chunk, in order
#[verifier::external_body]
pub fn drain_all(v: &mut Vec<MessageChunk>) -> (r: Vec<MessageChunk>)
    ensures r@ == old(v)@, final(v)@.len() == 0,
{ unimplemented!() }
// has a secure channel been issued on this connection (OpenSecureChannel sets a non-zero id)
pub open spec fn channel_issued(t: TcpTransport) -> bool { t.secure_channel.v.v.secure_channel_id != 0 }
impl TcpTransport {
    // validate_chunks + Chunker::decode (units c12_validate / c07_decode)
    #[verifier::external_body]
    pub fn turn_received_chunks_into_message(&mut self, chunks: &[MessageChunk]) -> (r: Result<SupportedMessage, StatusCode>)
        ensures final(self).secure_channel == old(self).secure_channel, final(self).pending_chunks == old(self).pending_chunks,
    { unimplemented!() }
    // the only handler that may run without a secure channel: it issues one
    #[verifier::external_body]
    pub fn process_open_secure_channel(&mut self, request_id: u32, request: &SupportedMessage, security_header: &SecurityHeader, sender: &MessageSender) -> (r: Result<(), StatusCode>)
        ensures final(self).pending_chunks == old(self).pending_chunks,
    { unimplemented!() }
    // C15: only once a secure channel has been issued
    #[verifier::external_body]
    pub fn process_close_secure_channel(&mut self, request_id: u32, request: &SupportedMessage, sender: &MessageSender) -> (r: Result<(), StatusCode>)
        requires channel_issued(*old(self)),
        ensures final(self).pending_chunks == old(self).pending_chunks,
    { unimplemented!() }
    // C15: a service request reaches the message handler only once a secure channel has been issued
    #[verifier::external_body]
    pub fn process_message(&mut self, request_id: u32, request: &SupportedMessage, sender: &MessageSender) -> (r: Result<(), StatusCode>)
        requires channel_issued(*old(self)),
        ensures final(self).pending_chunks == old(self).pending_chunks,
    { unimplemented!() }
}
'''

SPEC = {
    'process_final_chunk': ('r', '''        requires old(self).pending_chunks@.len() >= 1,     // process_chunk has just pushed the final chunk
        ensures
            // before a secure channel exists everything but an OpenSecureChannel is refused (and the connection closed by the caller)
            (message_header.message_type != MessageChunkType::OpenSecureChannel && !channel_issued(*old(self)))
                ==> r is Err,
            // whatever happens, nothing of the message stays buffered
            final(self).pending_chunks@.len() == 0,'''),
}

CANARY = '''
proof fn canary_order(t: TcpTransport)
    requires channel_issued(t), t.pending_chunks@.len() == 2,
    ensures false,
{}
'''


def macro_def(src, name):
    t, _ = src.item(r'^macro_rules! ' + name + r'\b', name='macro ' + name, with_attrs=False)
    return strip_line_comments(t)


def build(manifest):
    tt = Src('server/comms/tcp_transport.rs', manifest)
    mc = Src('core/comms/message_chunk.rs', manifest)
    lb = Src('lib.rs', manifest)
    f = norm_vis(clean_fn(tt.impl_fn(r'^impl TcpTransport \{', 'process_final_chunk')))
    f = re.sub(r'^(\s*)fn ', r'\1pub fn ', f, count=1) if not re.match(r'\s*pub ', f) else f
    g = f.replace('self.pending_chunks.drain(..).collect();', 'drain_all(&mut self.pending_chunks);')
    if g == f:
        raise Undecided('lost anchor: self.pending_chunks.drain(..).collect()')
    g = splice_contract(g, SPEC['process_final_chunk'][1], 'r')
    types = '\n'.join([mc.enum('MessageChunkType'), mc.enum('MessageIsFinalType'), mc.struct('MessageChunkHeader'), tt.struct('TcpTransport', keep_fields=['secure_channel', 'pending_chunks'])])
    a = Asm()
    a.add('use vstd::prelude::*;\n' + macro_def(lb, 'trace_read_lock') + '\nverus! {\nglobal size_of usize == 8;\n', 'prelude', 'env')
    a.add(norm_vis(types), 'types', 'env')
    a.add(status_code_struct(manifest), 'status codes', 'env')      # every status code of the real file (D14)
    a.add(ENV, 'env', 'env')
    a.add('impl TcpTransport {')
    a.add(g, 'TcpTransport::process_final_chunk', 'fn')
    a.add('}')
    add_proof_fns(a, CANARY, 'canary')
    a.add('}\nfn main() {}\n')
    return dict(asm=a, pid=PID, short=SHORT, clauses={k: v[1] for k, v in SPEC.items()}, twins={}, witness={},
                assumptions=['C15: OpenSecureChannel gives the connection a non-zero secure channel id (SecureChannelService::open_secure_channel: '
                             'create_secure_channel_id counts up from 1) and nothing resets it; single-threaded view of the lock',
                             'C15: the hello phase (wait_for_hello / process_hello, async) and "after a CloseSecureChannel nothing is '
                             'processed" (close_secure_channel answers with an error that ends the read loop) are not under contract',
                             'C15: `self.pending_chunks.drain(..).collect()` is rewritten into a call of an environment function that takes '
                             'all pending chunks'])
