"""C29 — Verus unit: AddressSpace::delete, verbatim except for rewrite D21 (`child_nodes.into_iter().for_each(|node_id| {..})`
becomes the loop it stands for), over an environment HashMap with std's map semantics and an environment References
whose view is the set of (source, type, target) triples.

Proved for every address space (any finite set of nodes, any reference graph, cycles included) and any node id:
the recursion terminates (Verus `decreases` on the number of nodes: a recursive call is only made after the node was
found and removed), the node is gone afterwards, every node that find_aggregates_of reported for it on entry is gone, no
node is added or changed, no reference is added, and with delete_target_references no remaining reference has a removed
node as source or target; the result is true when the node existed."""
from extract import *

PID = 'C29'
SHORT = 'delete'

ENV = '''
pub struct NodeId { pub x: u64 }
pub struct NodeType { pub x: u64 }
// std::collections::HashMap with the map operations used here (std semantics assumed); a HashMap holds finitely many keys
#[verifier::external_body]
#[verifier::reject_recursive_types(K)]
#[verifier::reject_recursive_types(V)]
pub struct HashMap<K, V> { k: std::marker::PhantomData<K>, v: std::marker::PhantomData<V> }
impl<K, V> View for HashMap<K, V> {
    type V = Map<K, V>;
    uninterp spec fn view(&self) -> Map<K, V>;
}
impl<K, V> HashMap<K, V> {
    #[verifier::external_body]
    pub fn contains_key(&self, k: &K) -> (r: bool) ensures r == self@.contains_key(*k) { unimplemented!() }
    #[verifier::external_body]
    pub fn remove(&mut self, k: &K) -> (r: Option<V>)
        ensures final(self)@ == old(self)@.remove(*k),
            match r { Some(v) => old(self)@.contains_key(*k) && v == old(self)@[*k], None => !old(self)@.contains_key(*k) }
    { unimplemented!() }
}
// a reference: (source node, reference type, target node)
pub type Triple = (NodeId, NodeId, NodeId);
#[verifier::external_body]
pub struct References { x: u64 }
impl View for References {
    type V = Set<Triple>;
    uninterp spec fn view(&self) -> Set<Triple>;
}
pub open spec fn touches(t: Triple, n: NodeId) -> bool { t.0 == n || t.2 == n }
impl References {
    // references.rs: the contract proved under C28 — removes exactly the references from or to the node, true when there was one
    #[verifier::external_body]
    pub fn delete_node_references(&mut self, source_node: &NodeId) -> (r: bool)
        ensures forall|t: Triple| #![trigger final(self)@.contains(t)] #![trigger old(self)@.contains(t)] final(self)@.contains(t) == (old(self)@.contains(t) && !touches(t, *source_node)),
            (exists|t: Triple| #[trigger] old(self)@.contains(t) && touches(t, *source_node)) ==> r,      // as proved under C28
    { unimplemented!() }
}
// find_references(parent, Some((Aggregates, true))) mapped to the target nodes: a function of the references
// (subtypes of Aggregates are found through HasSubtype references)
pub uninterp spec fn spec_aggregates(refs: Set<Triple>, parent: NodeId) -> Option<Seq<NodeId>>;
impl AddressSpace {
    #[verifier::external_body]
    pub fn find_aggregates_of(&self, parent_node: &NodeId) -> (r: Option<Vec<NodeId>>)
        ensures match r { Some(v) => spec_aggregates(self.references@, *parent_node) == Some(v@), None => spec_aggregates(self.references@, *parent_node) is None }
    { unimplemented!() }
}

// ---- specification
// nothing added, nothing changed among the nodes
pub open spec fn sub_nodes(a: Map<NodeId, NodeType>, b: Map<NodeId, NodeType>) -> bool {
    forall|k: NodeId| #[trigger] a.contains_key(k) ==> b.contains_key(k) && a[k] == b[k]
}
// no reference of `refs` starts or ends at a node that was in `before` and is not in `after` (`except` is still being worked on)
pub open spec fn no_dangling(refs: Set<Triple>, before: Map<NodeId, NodeType>, after: Map<NodeId, NodeType>, except: Option<NodeId>) -> bool {
    forall|t: Triple, n: NodeId| #[trigger] refs.contains(t) && #[trigger] before.contains_key(n) && !after.contains_key(n) && Some(n) != except ==> !touches(t, n)
}
'''

SPEC = {
    'delete': ('r', '''        ensures
            // the node is gone; no node was added or changed; no reference was added
            !final(self).node_map@.contains_key(*node_id),
            sub_nodes(final(self).node_map@, old(self).node_map@),
            final(self).references@.subset_of(old(self).references@),
            // every node it aggregated is gone
            old(self).node_map@.contains_key(*node_id) ==> (match spec_aggregates(old(self).references@, *node_id) {
                Some(children) => forall|i: int| 0 <= i < children.len() ==> !final(self).node_map@.contains_key(#[trigger] children[i]),
                None => true,
            }),
            // no reference to or from a removed node remains (removed: present on entry, absent on exit; includes the node itself when it existed)
            delete_target_references ==> no_dangling(final(self).references@, old(self).node_map@, final(self).node_map@, None),
            old(self).node_map@.contains_key(*node_id) ==> r,
            // false means there was nothing to delete (the node management service answers BadNodeIdUnknown and relies on this: C34)
            !r ==> final(self).node_map@ =~= old(self).node_map@ && final(self).references@ =~= old(self).references@,
        // terminates for every reference graph, cycles included: each recursive call works on fewer nodes
        decreases old(self).node_map@.dom().len(),'''),
}

LOOP = '''                invariant idx_node_id <= child_nodes@.len(),
                    old(self).node_map@.contains_key(*node_id), !self.node_map@.contains_key(*node_id),
                    sub_nodes(self.node_map@, old(self).node_map@),
                    self.references@.subset_of(old(self).references@),
                    forall|k: int| 0 <= k < idx_node_id ==> !self.node_map@.contains_key(#[trigger] child_nodes@[k]),
                    delete_target_references ==> no_dangling(self.references@, old(self).node_map@, self.node_map@, Some(*node_id)),
                decreases child_nodes@.len() - idx_node_id,'''

LEMMAS = '''
// strictly fewer keys when nothing was added and one is gone
proof fn lemma_strictly_fewer(a: Map<NodeId, NodeType>, b: Map<NodeId, NodeType>, n: NodeId)
    requires sub_nodes(a, b), b.contains_key(n), !a.contains_key(n),
    ensures a.dom().len() < b.dom().len(),
{
    assert(a.dom().subset_of(b.dom().remove(n)));
    vstd::set_lib::lemma_len_subset(a.dom(), b.dom().remove(n));
}
'''

CANARY = '''
proof fn canary_delete(a: Map<NodeId, NodeType>, b: Map<NodeId, NodeType>, refs: Set<Triple>, n: NodeId)
    requires sub_nodes(a, b), b.contains_key(n), !a.contains_key(n), no_dangling(refs, b, a, None), refs.contains((n, n, n)) == false,
    ensures false,
{}
'''


def build(manifest):
    asp = Src('server/address_space/address_space.rs', manifest)
    rewrites = []
    f = for_each_to_index_loop(norm_vis(clean_fn(asp.impl_fn(r'^impl AddressSpace \{', 'delete'))), rewrites)
    f = vec_to_index_loop(f, rewrites)      # the same loop written as `for node_id in child_nodes { .. }`
    f = all_to_index_loop(f, rewrites)      # ... or as `let _ = child_nodes.into_iter().all(|node_id| { .. })` (stops at the first false)
    f = splice_contract(f, SPEC['delete'][1], 'r')
    gen = re.search(r'^\s*let (\w+) = &(\w+)\[(idx_\w+)\];', f, re.M)      # the line the rewrite generates: element, vector, index (any names)
    if rewrites and gen:
        f = splice_loop(f, 0, LOOP.replace('idx_node_id', gen.group(3)).replace('child_nodes', gen.group(2)))
        # hint at the head of the loop body: the map lost the node, so it has fewer keys than on entry (`node_id` is the parameter here)
        f = splice_at(f, r'^\s*let %s = &%s\[%s\];' % (gen.group(1), gen.group(2), gen.group(3)),
                      '                proof { lemma_strictly_fewer(self.node_map@, old(self).node_map@, *node_id); }')
    types = asp.struct('AddressSpace', keep_fields=['node_map', 'references'])
    a = Asm()
    a.add('use vstd::prelude::*;\nverus! {\nglobal size_of usize == 8;\n', 'prelude', 'env')
    a.add(norm_vis(types), 'types', 'env')
    a.add(ENV, 'env', 'env')
    a.add('impl AddressSpace {')
    a.add(f, 'delete', 'fn')
    a.add('}')
    add_proof_fns(a, LEMMAS, 'lemma')
    add_proof_fns(a, CANARY, 'canary')
    a.add('}\nfn main() {}\n')
    return dict(asm=a, pid=PID, short=SHORT, clauses={k: v[1] for k, v in SPEC.items()}, twins={}, witness={},
                assumptions=['C29: rewrite D21 — `child_nodes.into_iter().for_each(|node_id| { BODY });` is replaced by the loop it stands for '
                             '(BODY once per child, in order; BODY sees a reference to the element)',
                             'C29: std::collections::HashMap::{contains_key, remove} have map semantics and a HashMap holds finitely many keys '
                             '(environment type with a Map view)',
                             'C29: References::delete_node_references removes exactly the references from or to the node: the contract proved for the real '
                             'function under C28 (unit c28_references), used here as an assumed contract of the environment type',
                             'C29: AddressSpace::find_aggregates_of is a function of the references (find_references + iterator adapters, not under '
                             'contract): "every node it aggregates" means every node that function reports on entry; the nodes aggregated by those '
                             'are covered by the same contract at the recursive call'])
