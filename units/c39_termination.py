from c39_ops import build_variant
def build(manifest):
    return build_variant(manifest, 'term', 'C39')
