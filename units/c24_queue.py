"""C24 — Verus unit: MonitoredItem::enqueue_notification_message on the real VecDeque (vstd specs), any queue size."""
from extract import *

PID = 'C24'
SHORT = 'queue'

ENV = '''
use std::collections::VecDeque;
// ---- std operations without a vstd specification (assumed: they do what std documents)
#[verifier::external_type_specification]
#[verifier::external_body]
#[verifier::reject_recursive_types(T)]
#[verifier::reject_recursive_types(A)]
pub struct ExDrain<'a, T: 'a, A: std::alloc::Allocator>(std::collections::vec_deque::Drain<'a, T, A>);
pub mod axr { use vstd::prelude::*; verus! {
pub uninterp spec fn spec_range_bounds<R>(r: R) -> (int, int);
#[verifier::external_body]
pub broadcast proof fn axiom_range_bounds(r: std::ops::Range<usize>)
    ensures #[trigger] spec_range_bounds::<std::ops::Range<usize>>(r) == (r.start as int, r.end as int)
{}
} }
pub use axr::spec_range_bounds;
broadcast use axr::axiom_range_bounds;
// drain(range) removes exactly the elements of the range (the returned iterator is dropped at once by the caller)
pub assume_specification<T, A: std::alloc::Allocator, R: std::ops::RangeBounds<usize>> [VecDeque::<T, A>::drain::<R>] (v: &mut VecDeque<T, A>, range: R) -> (r: std::collections::vec_deque::Drain<'_, T, A>)
    requires 0 <= spec_range_bounds(range).0 <= spec_range_bounds(range).1 <= old(v)@.len(),
    ensures final(v)@ == old(v)@.subrange(0, spec_range_bounds(range).0) + old(v)@.subrange(spec_range_bounds(range).1, old(v)@.len() as int);
pub assume_specification<T, A: std::alloc::Allocator> [VecDeque::<T, A>::shrink_to_fit] (v: &mut VecDeque<T, A>)
    ensures final(v)@ == old(v)@;
pub uninterp spec fn spec_capacity<T, A: std::alloc::Allocator>(v: &VecDeque<T, A>) -> usize;
pub assume_specification<T, A: std::alloc::Allocator> [VecDeque::<T, A>::capacity] (v: &VecDeque<T, A>) -> (r: usize)
    ensures r == spec_capacity(v), r >= v@.len();
// ---- environment (sliced stand-ins for types of the repository; only the fields the function touches)
impl std::ops::BitOr for StatusCode {
    type Output = StatusCode;
    #[verifier::external_body]
    fn bitor(self, rhs: StatusCode) -> (r: StatusCode) { unimplemented!() }
}
impl vstd::std_specs::ops::BitOrSpecImpl for StatusCode {
    open spec fn obeys_bitor_spec() -> bool { true }
    open spec fn bitor_req(self, rhs: StatusCode) -> bool { true }
    open spec fn bitor_spec(self, rhs: StatusCode) -> StatusCode { StatusCode { bits: self.bits | rhs.bits } }
}
pub struct DataValue { pub status: Option<StatusCode>, pub v: u64 }
impl DataValue {
    #[verifier::external_body]
    pub fn status(&self) -> (r: StatusCode) ensures r == (match self.status { Some(s) => s, None => StatusCode { bits: 0 } }) { unimplemented!() }
}
pub struct MonitoredItemNotification { pub client_handle: u32, pub value: DataValue }
pub struct EventFieldList { pub client_handle: u32 }
pub enum Notification { MonitoredItemNotification(MonitoredItemNotification), Event(EventFieldList) }
pub struct ReadValueId { pub node_id: u32 }
pub type Duration = f64;   // as in lib/src/types/basic_types.rs
pub struct ServerState { pub x: u8 }
pub struct DecodingOptions { pub x: u8 }
impl ServerState { #[verifier::external_body] pub fn decoding_options(&self) -> DecodingOptions { unimplemented!() } }
pub struct AddressSpace { pub x: u8 }
pub struct ExtensionObject { pub x: u8 }
pub struct FilterType { pub x: u8 }
impl FilterType {
    #[verifier::external_body]
    pub fn from_filter(filter: &ExtensionObject, decoding_options: &DecodingOptions) -> (r: Result<FilterType, StatusCode>) { unimplemented!() }
}
pub struct MonitoringParameters { pub client_handle: u32, pub sampling_interval: f64, pub filter: ExtensionObject, pub queue_size: u32, pub discard_oldest: bool }
pub struct MonitoredItemModifyRequest { pub monitored_item_id: u32, pub requested_parameters: MonitoringParameters }
// the revised queue size (C23: between 1 and the server maximum) as an uninterpreted function of the request
pub uninterp spec fn spec_revised_queue_size(server_state: &ServerState, requested: usize) -> usize;

// ---- specification
// the notification as stored: the sample with the overflow bit (the repository's StatusCode::OVERFLOW, 0x80) set in its status
pub open spec fn with_overflow(n: Notification) -> Notification {
    match n {
        Notification::MonitoredItemNotification(m) => Notification::MonitoredItemNotification(MonitoredItemNotification {
            client_handle: m.client_handle,
            value: DataValue { status: Some(StatusCode { bits: (match m.value.status { Some(s) => s, None => StatusCode { bits: 0 } }).bits | StatusCode::OVERFLOW.bits }), v: m.value.v },
        }),
        Notification::Event(e) => Notification::Event(e),
    }
}
pub open spec fn wf(m: MonitoredItem) -> bool {
    m.queue_size >= 1 && m.notification_queue@.len() <= m.queue_size
}
pub uninterp spec fn spec_into<T>(t: T) -> Notification;
'''

SPEC = {
    'enqueue_notification_message': (None, '''        requires wf(*old(self)), T::into.requires((notification,)),
            forall|n: T, r: Notification| T::into.ensures((n,), r) ==> r == spec_into(n),
        ensures
            wf(*final(self)),
            final(self).queue_size == old(self).queue_size, final(self).discard_oldest == old(self).discard_oldest,
            ({
                let q = old(self).notification_queue@;
                let full = q.len() == old(self).queue_size;
                let marked = full && old(self).queue_size > 1;
                let x = if marked { with_overflow(spec_into(notification)) } else { spec_into(notification) };
                // never more than queue_size entries, sample order preserved:
                &&& (!full ==> final(self).notification_queue@ == q.push(x))
                // full + discard-oldest: the oldest entry goes, all others keep their order, newest appended
                &&& (full && old(self).discard_oldest ==> final(self).notification_queue@ == q.subrange(1, q.len() as int).push(x))
                // full + keep-oldest: the newest entry is replaced
                &&& (full && !old(self).discard_oldest ==> final(self).notification_queue@ == q.subrange(0, q.len() - 1).push(x))
                // the overflow is marked on the value (queues > 1) and remembered
                &&& final(self).queue_overflow == (old(self).queue_overflow || marked)
            }),'''),
}

MODIFY_ENV = '''
impl MonitoredItem {
    #[verifier::external_body]
    pub fn sanitize_sampling_interval(server_state: &ServerState, requested_sampling_interval: f64) -> f64 { unimplemented!() }
    // contract proved on the real function by Kani (C23): 1 <= revised
    #[verifier::external_body]
    pub fn sanitize_queue_size(server_state: &ServerState, requested_queue_size: usize) -> (r: usize)
        ensures r >= 1, r == spec_revised_queue_size(server_state, requested_queue_size)
    { unimplemented!() }
    #[verifier::external_body]
    pub fn validate_filter(&self, address_space: &AddressSpace) -> Result<ExtensionObject, StatusCode> { unimplemented!() }
}
'''

SPEC['modify'] = ('r', '''        ensures
            // nothing but a rejected filter makes the call fail (there is no panic: every obligation below
            // and every arithmetic operation / drain range in the body is discharged for all queue states)
            ({
                let q = old(self).notification_queue@;
                let new_size = spec_revised_queue_size(server_state, request.requested_parameters.queue_size as usize);
                let keep = if q.len() <= new_size { q.len() } else { new_size as nat };
                // either the filter was rejected before anything about the queue changed ...
                ||| (r is Err && final(self).notification_queue@ == q && final(self).queue_size == old(self).queue_size)
                // ... or the queue now holds the most recent `keep` entries, in order, and fits the new size
                ||| (final(self).queue_size == new_size && new_size >= 1
                     && final(self).notification_queue@ == q.subrange(q.len() - keep, q.len() as int)
                     && wf(*final(self)))
            }),''')

LEMMAS = '''
// history statement: from an empty queue, any sequence of enqueue steps (each satisfying the proved contract)
// keeps at most queue_size entries — by induction, since wf is preserved by every step
pub open spec fn step_ok(tr: Seq<MonitoredItem>, i: int) -> bool { wf(tr[i]) ==> wf(tr[i + 1]) }
proof fn lemma_queue_never_exceeds_size(tr: Seq<MonitoredItem>, k: int)
    requires tr.len() >= 1, wf(tr[0]), 0 <= k < tr.len(),
        forall|i: int| 0 <= i < tr.len() - 1 ==> #[trigger] step_ok(tr, i),
    ensures wf(tr[k]),
    decreases k,
{
    if k > 0 {
        lemma_queue_never_exceeds_size(tr, k - 1);
        assert(step_ok(tr, k - 1));
    }
}
'''

CANARY = '''
proof fn canary_enqueue_pre(m: MonitoredItem)
    requires wf(m), m.notification_queue@.len() == m.queue_size, m.queue_size > 1,
    ensures false,
{}
'''


def build(manifest):
    src = Src('server/subscriptions/monitored_item.rs', manifest)
    f = clean_fn(src.impl_fn(r'^impl MonitoredItem \{', 'enqueue_notification_message'))
    # S1 for a function with a where clause: the contract goes after the where clause
    i = f.index('{', f.index('T: Into<Notification>'))
    f = f[:i].rstrip() + '\n' + SPEC['enqueue_notification_message'][1] + '\n    ' + f[i:]
    st = src.struct('MonitoredItem', keep_fields=['item_to_monitor', 'client_handle', 'sampling_interval', 'filter',
                                                  'discard_oldest', 'queue_size', 'notification_queue', 'queue_overflow',
                                                  'timestamps_to_return'])
    en = Src('types/service_types/enums.rs', manifest)
    ttr = en.enum('TimestampsToReturn')
    g = clean_fn(src.impl_fn(r'^impl MonitoredItem \{', 'modify'))
    g = splice_contract(g, SPEC['modify'][1], SPEC['modify'][0])
    a = Asm()
    a.add('#![feature(allocator_api)]\nuse vstd::prelude::*;\nverus! {\nglobal size_of usize == 8;\n', 'prelude', 'env')
    a.add(status_code_struct(manifest), 'status codes', 'env')      # every status code of the real file (D14)
    a.add(ENV, 'env', 'env')
    a.add(norm_vis(ttr) + '\n' + norm_vis(st), 'types', 'env')
    a.add(MODIFY_ENV, 'env2', 'env')
    a.add('impl MonitoredItem {')
    a.add(norm_vis(f), 'enqueue_notification_message', 'fn')
    a.add(norm_vis(g), 'modify', 'fn')
    a.add('}')
    add_proof_fns(a, LEMMAS, 'lemma')
    add_proof_fns(a, CANARY, 'canary')
    a.add('}\nfn main() {}\n')
    return dict(asm=a, pid=PID, short=SHORT, clauses={k: v[1] for k, v in SPEC.items()},
                twins={}, witness={},
                assumptions=['C24: queue_size >= 1 is the C23 postcondition of sanitize_queue_size',
                             'C24: StatusCode | is bitwise or on the 32 status bits; DataValue::status() is the stored status or Good'])
