"""C24 — Verus unit: MonitoredItem::enqueue_notification_message on the real VecDeque (vstd specs), any queue size."""
from extract import *

PID = 'C24'
SHORT = 'queue'

ENV = '''
use std::collections::VecDeque;
// ---- environment (sliced stand-ins for types of the repository; only the fields the function touches)
#[derive(Clone, Copy, PartialEq, Eq, Structural)]
pub struct StatusCode { pub bits: u32 }
impl StatusCode {
    pub const OVERFLOW: StatusCode = StatusCode { bits: 0x480 };
}
impl std::ops::BitOr for StatusCode {
    type Output = StatusCode;
    #[verifier::external_body]
    fn bitor(self, rhs: StatusCode) -> (r: StatusCode) { unimplemented!() }
}
impl vstd::std_specs::ops::BitOrSpecImpl for StatusCode {
    open spec fn obeys_bitor_spec() -> bool { true }
    open spec fn bitor_req(self, rhs: StatusCode) -> bool { true }
    open spec fn bitor_spec(self, rhs: StatusCode) -> StatusCode { StatusCode { bits: self.bits | rhs.bits } }
}
pub struct DataValue { pub status: Option<StatusCode>, pub v: u64 }
impl DataValue {
    #[verifier::external_body]
    pub fn status(&self) -> (r: StatusCode) ensures r == (match self.status { Some(s) => s, None => StatusCode { bits: 0 } }) { unimplemented!() }
}
pub struct MonitoredItemNotification { pub client_handle: u32, pub value: DataValue }
pub struct EventFieldList { pub client_handle: u32 }
pub enum Notification { MonitoredItemNotification(MonitoredItemNotification), Event(EventFieldList) }
pub struct ReadValueId { pub node_id: u32 }

// ---- specification
// the notification as stored: the sample with the overflow bit (InfoBits Overflow, 0x480) set in its status
pub open spec fn with_overflow(n: Notification) -> Notification {
    match n {
        Notification::MonitoredItemNotification(m) => Notification::MonitoredItemNotification(MonitoredItemNotification {
            client_handle: m.client_handle,
            value: DataValue { status: Some(StatusCode { bits: (match m.value.status { Some(s) => s, None => StatusCode { bits: 0 } }).bits | 0x480 }), v: m.value.v },
        }),
        Notification::Event(e) => Notification::Event(e),
    }
}
pub open spec fn wf(m: MonitoredItem) -> bool {
    m.queue_size >= 1 && m.notification_queue@.len() <= m.queue_size
}
pub uninterp spec fn spec_into<T>(t: T) -> Notification;
'''

SPEC = {
    'enqueue_notification_message': (None, '''        requires wf(*old(self)), T::into.requires((notification,)),
            forall|n: T, r: Notification| T::into.ensures((n,), r) ==> r == spec_into(n),
        ensures
            wf(*final(self)),
            final(self).queue_size == old(self).queue_size, final(self).discard_oldest == old(self).discard_oldest,
            ({
                let q = old(self).notification_queue@;
                let full = q.len() == old(self).queue_size;
                let marked = full && old(self).queue_size > 1;
                let x = if marked { with_overflow(spec_into(notification)) } else { spec_into(notification) };
                // never more than queue_size entries, sample order preserved:
                &&& (!full ==> final(self).notification_queue@ == q.push(x))
                // full + discard-oldest: the oldest entry goes, all others keep their order, newest appended
                &&& (full && old(self).discard_oldest ==> final(self).notification_queue@ == q.subrange(1, q.len() as int).push(x))
                // full + keep-oldest: the newest entry is replaced
                &&& (full && !old(self).discard_oldest ==> final(self).notification_queue@ == q.subrange(0, q.len() - 1).push(x))
                // the overflow is marked on the value (queues > 1) and remembered
                &&& final(self).queue_overflow == (old(self).queue_overflow || marked)
            }),'''),
}

LEMMAS = '''
// history statement: from an empty queue, any sequence of enqueue steps (each satisfying the proved contract)
// keeps at most queue_size entries — by induction, since wf is preserved by every step
pub open spec fn step_ok(tr: Seq<MonitoredItem>, i: int) -> bool { wf(tr[i]) ==> wf(tr[i + 1]) }
proof fn lemma_queue_never_exceeds_size(tr: Seq<MonitoredItem>, k: int)
    requires tr.len() >= 1, wf(tr[0]), 0 <= k < tr.len(),
        forall|i: int| 0 <= i < tr.len() - 1 ==> #[trigger] step_ok(tr, i),
    ensures wf(tr[k]),
    decreases k,
{
    if k > 0 {
        lemma_queue_never_exceeds_size(tr, k - 1);
        assert(step_ok(tr, k - 1));
    }
}
'''

CANARY = '''
proof fn canary_enqueue_pre(m: MonitoredItem)
    requires wf(m), m.notification_queue@.len() == m.queue_size, m.queue_size > 1,
    ensures false,
{}
'''


def build(manifest):
    src = Src('server/subscriptions/monitored_item.rs', manifest)
    f = clean_fn(src.impl_fn(r'^impl MonitoredItem \{', 'enqueue_notification_message'))
    # S1 for a function with a where clause: the contract goes after the where clause
    i = f.index('{', f.index('T: Into<Notification>'))
    f = f[:i].rstrip() + '\n' + SPEC['enqueue_notification_message'][1] + '\n    ' + f[i:]
    st = src.struct('MonitoredItem', keep_fields=['item_to_monitor', 'discard_oldest', 'queue_size', 'notification_queue',
                                                  'queue_overflow'])
    a = Asm()
    a.add('use vstd::prelude::*;\nverus! {\nglobal size_of usize == 8;\n', 'prelude', 'env')
    a.add(ENV, 'env', 'env')
    a.add(norm_vis(st), 'types', 'env')
    a.add('impl MonitoredItem {')
    a.add(norm_vis(f), 'enqueue_notification_message', 'fn')
    a.add('}')
    add_proof_fns(a, LEMMAS, 'lemma')
    add_proof_fns(a, CANARY, 'canary')
    a.add('}\nfn main() {}\n')
    return dict(asm=a, pid=PID, short=SHORT, clauses={k: v[1] for k, v in SPEC.items()},
                twins={'enqueue_notification_message': 'c24::c24_enqueue_twin'}, witness={},
                assumptions=['C24: queue_size >= 1 is the C23 postcondition of sanitize_queue_size',
                             'C24: StatusCode | is bitwise or on the 32 status bits; DataValue::status() is the stored status or Good'])
