"""C31 — Verus unit: browse path translation, verbatim (server/address_space/relative_path.rs):
follow_relative_path and find_nodes_relative_path (rewrites D15, D19, D21 drain form, D23), over an environment AddressSpace
whose reference queries (find_references / find_inverse_references with their type filter) are functions of their arguments.

Proved for every address space, starting node and relative path (any length): follow_relative_path asks for the references
in the direction the element names (inverse or forward) with the element's reference type and subtype flag, and returns —
each once — exactly the targets of those references that exist and whose browse name equals the element's target name;
find_nodes_relative_path returns exactly the nodes reachable from the starting node by following the elements one after the
other (level by level, every node of one level followed with the next element), and an error only when there is nothing
to return (unknown starting node, empty path, an element without a target name, or no node reachable); the unwrap of the element list cannot fail given what the
callers check."""
from extract import *

PID = 'C31'
SHORT = 'translate'

ENV = '''
#[derive(PartialEq, Eq, Structural)]
pub struct NodeId { pub namespace: u16, pub identifier: u64 }
impl Clone for NodeId {
    fn clone(&self) -> (r: Self) ensures r == *self { NodeId { namespace: self.namespace, identifier: self.identifier } }
}
#[derive(Clone, Copy, PartialEq, Eq, Structural)]
pub struct ReferenceTypeId { pub x: u32 }
pub uninterp spec fn spec_as_reference_type(n: NodeId) -> Option<ReferenceTypeId>;
impl NodeId {
    #[verifier::external_body]
    pub fn as_reference_type_id(&self) -> (r: Result<ReferenceTypeId, ()>)
        ensures match r { Ok(t) => spec_as_reference_type(*self) == Some(t), Err(_) => spec_as_reference_type(*self) is None }
    { unimplemented!() }
}
// a browse name: namespace index and name (the text is not looked into here); #[derive(PartialEq)] is field-wise
#[derive(PartialEq, Eq, Structural)]
pub struct QualifiedName { pub namespace_index: u16, pub name: u64 }
pub uninterp spec fn spec_name_is_null(q: QualifiedName) -> bool;
impl QualifiedName {
    #[verifier::external_body]
    pub fn is_null(&self) -> (r: bool) ensures r == spec_name_is_null(*self) { unimplemented!() }
}
// ---- the address space as this unit sees it
#[verifier::external_body]
pub struct AddressSpace { x: u64 }
#[verifier::external_body]
pub struct NodeType { x: u64 }
pub struct NodeBase { pub browse_name: QualifiedName }
impl NodeType {
    pub uninterp spec fn name(&self) -> QualifiedName;
    #[verifier::external_body]
    pub fn as_node(&self) -> (r: &NodeBase) ensures r.browse_name == self.name() { unimplemented!() }
}
impl NodeBase {
    pub fn browse_name(&self) -> (r: QualifiedName) ensures r == self.browse_name
    { QualifiedName { namespace_index: self.browse_name.namespace_index, name: self.browse_name.name } }
}
pub type Filter = Option<(ReferenceTypeId, bool)>;
impl AddressSpace {
    pub uninterp spec fn exists(&self, n: NodeId) -> bool;
    pub uninterp spec fn name_of(&self, n: NodeId) -> QualifiedName;
    // References::find_references / find_inverse_references (reference type filter incl. subtypes): functions of their arguments
    pub uninterp spec fn fwd(&self, n: NodeId, filter: Filter) -> Option<Seq<Reference>>;
    pub uninterp spec fn inv(&self, n: NodeId, filter: Filter) -> Option<Seq<Reference>>;
    #[verifier::external_body]
    pub fn find_node(&self, node_id: &NodeId) -> (r: Option<&NodeType>)
        ensures (r is Some) == self.exists(*node_id), r is Some ==> r->Some_0.name() == self.name_of(*node_id)
    { unimplemented!() }
    #[verifier::external_body]
    pub fn find_references(&self, node: &NodeId, reference_filter: Filter) -> (r: Option<Vec<Reference>>)
        ensures match r { Some(v) => self.fwd(*node, reference_filter) == Some(v@), None => self.fwd(*node, reference_filter) is None }
    { unimplemented!() }
    #[verifier::external_body]
    pub fn find_inverse_references(&self, node: &NodeId, reference_filter: Filter) -> (r: Option<Vec<Reference>>)
        ensures match r { Some(v) => self.inv(*node, reference_filter) == Some(v@), None => self.inv(*node, reference_filter) is None }
    { unimplemented!() }
}
// ---- std collections (std semantics assumed)
#[verifier::external_body]
#[verifier::reject_recursive_types(T)]
pub struct HashSet<T> { t: std::marker::PhantomData<T> }
impl<T> View for HashSet<T> { type V = Set<T>; uninterp spec fn view(&self) -> Set<T>; }
// `for r in &vec` (rewrite D23)
pub open spec fn spec_iter_len(v: &Vec<Reference>) -> nat { v@.len() }
pub fn iter_len(v: &Vec<Reference>) -> (r: usize) ensures r == v@.len() { v.len() }
pub fn iter_nth(v: &Vec<Reference>, i: usize) -> (r: &Reference) requires i < v@.len(), ensures *r == v@[i as int] { &v[i] }
// `v.into_iter().collect::<HashSet<_>>()` and `set.into_iter().collect()` into a Vec (rewrite D19, conversion forms)
#[verifier::external_body]
pub fn vec_into_set(v: Vec<NodeId>) -> (r: HashSet<NodeId>) ensures forall|x: NodeId| #[trigger] r@.contains(x) == v@.contains(x) { unimplemented!() }
#[verifier::external_body]
pub fn into_vec(s: HashSet<NodeId>) -> (r: Vec<NodeId>) ensures r@.no_duplicates(), forall|x: NodeId| #[trigger] r@.contains(x) == s@.contains(x) { unimplemented!() }

// ---- specification (from the property statement)
// the references the element asks for at node n: its direction, its reference type, its subtype flag
pub open spec fn query(a: AddressSpace, n: NodeId, e: RelativePathElement) -> Option<Seq<Reference>> {
    let filter: Filter = match spec_as_reference_type(e.reference_type_id) { Some(t) => Some((t, e.include_subtypes)), None => None };
    if e.is_inverse { a.inv(n, filter) } else { a.fwd(n, filter) }
}
// x is reached from n by element e: the target of such a reference, existing, with the element's browse name
pub open spec fn in_follow(a: AddressSpace, n: NodeId, e: RelativePathElement, x: NodeId) -> bool {
    query(a, n, e) is Some && a.exists(x) && (spec_name_is_null(e.target_name) || a.name_of(x) == e.target_name)
        && exists|i: int| 0 <= i < query(a, n, e)->Some_0.len() && (#[trigger] query(a, n, e)->Some_0[i]).target_node == x
}
// x is reached from `start` by following the first k elements, one after the other
pub open spec fn in_reach(a: AddressSpace, start: NodeId, es: Seq<RelativePathElement>, k: nat, x: NodeId) -> bool
    decreases k
{
    if k == 0 { x == start }
    else { exists|n: NodeId| in_reach(a, start, es, (k - 1) as nat, n) && #[trigger] in_follow(a, n, es[k - 1], x) }
}
'''

SPEC = {
    'follow_relative_path': ('r', '''        ensures (r is Some) == (query(*address_space, *node_id, *relative_path) is Some),
            r is Some ==> r->Some_0@.no_duplicates()
                && forall|x: NodeId| #[trigger] r->Some_0@.contains(x) == in_follow(*address_space, *node_id, *relative_path, x),'''),
    'find_nodes_relative_path': ('r', '''        requires relative_path.elements is Some,       // TranslateBrowsePathsToNodeIds answers BadNothingToDo itself otherwise; add_node builds the path
        ensures ({
            let es = relative_path.elements->Some_0@;
            let a = *address_space;
            match r {
                // exactly the nodes reached by following all the elements
                Ok(v) => a.exists(*node_id) && v@.len() > 0 && forall|x: NodeId| #[trigger] v@.contains(x) == in_reach(a, *node_id, es, es.len(), x),
                // an error only when there is nothing to return: the starting node is unknown, the path is empty or has an element without a
                // target name, or no node is reachable (which status says which is not part of the property)
                Err(e) => !a.exists(*node_id) || es.len() == 0
                    || (exists|k: int| 0 <= k < es.len() && spec_name_is_null(#[trigger] es[k].target_name))
                    || (forall|x: NodeId| !in_reach(a, *node_id, es, es.len(), x)),
            }
        }),'''),
}

FOLLOW_LOOP = '''            invariant idx_reference <= references@.len(),
                forall|x: NodeId| #[trigger] result@.contains(x) == (address_space.exists(x)
                    && (!compare_target_name || address_space.name_of(x) == relative_path.target_name)
                    && exists|i: int| 0 <= i < idx_reference && (#[trigger] references@[i]).target_node == x),'''
FOLLOW_BODY_END = '''            proof { lemma_push_contains_id(r0, reference.target_node); }'''
FOLLOW_END = '''        proof {
            let a = *address_space;
            assert(query(a, *node_id, *relative_path) == Some(references@));
            let q = query(a, *node_id, *relative_path)->Some_0;
            let rv = result@;
            assert forall|x: NodeId| #[trigger] rv.contains(x) == in_follow(a, *node_id, *relative_path, x) by {
                if rv.contains(x) {
                    let i = choose|i: int| 0 <= i < references@.len() && (#[trigger] references@[i]).target_node == x;
                    assert(q[i].target_node == x);
                }
                if in_follow(a, *node_id, *relative_path, x) {
                    let i = choose|i: int| 0 <= i < q.len() && (#[trigger] q[i]).target_node == x;
                    assert(references@[i].target_node == x);
                }
            }
        }'''
FOLLOW_BODY_HEAD = '''            let ghost r0 = result@;'''

OUTER = '''                    invariant_except_break idx_element <= elements@.len(), matching_nodes@.len() > 0,
                        forall|x: NodeId| #[trigger] matching_nodes@.contains(x) == in_reach(*address_space, *node_id, elements@, idx_element as nat, x),
                    invariant elements@ == relative_path.elements->Some_0@, address_space.exists(*node_id),
                    ensures (matching_nodes@.len() > 0 && forall|x: NodeId| #[trigger] matching_nodes@.contains(x) == in_reach(*address_space, *node_id, elements@, elements@.len(), x))
                        || (matching_nodes@.len() == 0 && forall|x: NodeId| !in_reach(*address_space, *node_id, elements@, elements@.len(), x)),
                    decreases elements@.len() - idx_element,'''
INNER = '''                        invariant idx_node_id <= matching_nodes@.len(), matching_nodes@ == m0,
                            forall|x: NodeId| #[trigger] next_matching_nodes@.contains(x) == (exists|j: int| 0 <= j < idx_node_id && in_follow(*address_space, #[trigger] m0[j], *element, x)),
                        decreases matching_nodes@.len() - idx_node_id,'''
INNER_HEAD = '''                    let ghost m0 = matching_nodes@;'''
APPEND_BEFORE = '''                            let ghost n0 = next_matching_nodes@;
                            let ghost res0 = result@;'''
APPEND_AFTER = '''                            proof { lemma_concat_contains(n0, res0); }'''
INNER_BODY_END = '''                        proof {
                            assert forall|x: NodeId| #[trigger] next_matching_nodes@.contains(x) == (exists|j: int| 0 <= j < idx_node_id + 1 && in_follow(*address_space, #[trigger] m0[j], *element, x)) by {
                                if in_follow(*address_space, m0[idx_node_id as int], *element, x) { }
                                if exists|j: int| 0 <= j < idx_node_id + 1 && in_follow(*address_space, #[trigger] m0[j], *element, x) {
                                    let j = choose|j: int| 0 <= j < idx_node_id + 1 && in_follow(*address_space, #[trigger] m0[j], *element, x);
                                    if j < idx_node_id { } else { assert(j == idx_node_id); }
                                }
                            }
                        }'''
AFTER_INNER = '''                    proof {
                        // one more element followed: what is in `next` is what is reached with idx_element + 1 elements
                        let a = *address_space;
                        lemma_step(a, *node_id, elements@, idx_element as nat, m0, next_matching_nodes@);
                        if next_matching_nodes@.len() == 0 {
                            let k1 = (idx_element + 1) as nat;
                            assert forall|x: NodeId| !(#[trigger] in_reach(a, *node_id, elements@, k1, x)) by {
                                if in_reach(a, *node_id, elements@, k1, x) { assert(next_matching_nodes@.contains(x)); }
                            }
                            lemma_empty_stays(a, *node_id, elements@, k1, elements@.len());
                        }
                    }'''

LEMMAS = '''
proof fn lemma_push_contains_id(s: Seq<NodeId>, x: NodeId)
    ensures forall|y: NodeId| #[trigger] s.push(x).contains(y) == (s.contains(y) || y == x),
{
    assert forall|y: NodeId| #[trigger] s.push(x).contains(y) == (s.contains(y) || y == x) by {
        if s.contains(y) { let i = choose|i: int| 0 <= i < s.len() && s[i] == y; assert(s.push(x)[i] == y); }
        if y == x { assert(s.push(x)[s.len() as int] == x); }
        if s.push(x).contains(y) { let i = choose|i: int| 0 <= i < s.push(x).len() && s.push(x)[i] == y; if i < s.len() { assert(s[i] == y); } }
    }
}
// Vec::append: the result holds what either part held
proof fn lemma_concat_contains(s: Seq<NodeId>, t: Seq<NodeId>)
    ensures forall|y: NodeId| #[trigger] (s + t).contains(y) == (s.contains(y) || t.contains(y)),
{
    assert forall|y: NodeId| #[trigger] (s + t).contains(y) == (s.contains(y) || t.contains(y)) by {
        if s.contains(y) { let i = choose|i: int| 0 <= i < s.len() && s[i] == y; assert((s + t)[i] == y); }
        if t.contains(y) { let i = choose|i: int| 0 <= i < t.len() && t[i] == y; assert((s + t)[s.len() + i] == y); }
        if (s + t).contains(y) { let i = choose|i: int| 0 <= i < (s + t).len() && (s + t)[i] == y; if i < s.len() { assert(s[i] == y); } else { assert(t[i - s.len()] == y); } }
    }
}
// following one more element from every node of a level gives the next level
proof fn lemma_step(a: AddressSpace, start: NodeId, es: Seq<RelativePathElement>, k: nat, m0: Seq<NodeId>, next: Seq<NodeId>)
    requires k < es.len(),
        forall|x: NodeId| #[trigger] m0.contains(x) == in_reach(a, start, es, k, x),
        forall|x: NodeId| #[trigger] next.contains(x) == (exists|j: int| 0 <= j < m0.len() && in_follow(a, #[trigger] m0[j], es[k as int], x)),
    ensures forall|x: NodeId| #[trigger] next.contains(x) == in_reach(a, start, es, (k + 1) as nat, x),
{
    let k1 = (k + 1) as nat;
    assert((k1 - 1) as nat == k);
    reveal_with_fuel(in_reach, 2);
    assert forall|x: NodeId| #[trigger] next.contains(x) == in_reach(a, start, es, k1, x) by {
        if next.contains(x) {
            let j = choose|j: int| 0 <= j < m0.len() && in_follow(a, #[trigger] m0[j], es[k as int], x);
            assert(m0.contains(m0[j]));
            assert(in_reach(a, start, es, (k1 - 1) as nat, m0[j]) && in_follow(a, m0[j], es[k1 - 1], x));
        }
        if in_reach(a, start, es, k1, x) {
            let n = choose|n: NodeId| in_reach(a, start, es, (k1 - 1) as nat, n) && #[trigger] in_follow(a, n, es[k1 - 1], x);
            assert(m0.contains(n));
            let j = choose|j: int| 0 <= j < m0.len() && m0[j] == n;
            assert(in_follow(a, m0[j], es[k as int], x));
        }
    }
}
// once no node is reached, none is reached by following further elements
proof fn lemma_empty_stays(a: AddressSpace, start: NodeId, es: Seq<RelativePathElement>, k: nat, m: nat)
    requires k <= m, forall|x: NodeId| !in_reach(a, start, es, k, x),
    ensures forall|x: NodeId| !in_reach(a, start, es, m, x),
    decreases m - k,
{
    if k < m {
        let k1 = (k + 1) as nat;
        assert((k1 - 1) as nat == k);
        reveal_with_fuel(in_reach, 2);
        assert forall|x: NodeId| !(#[trigger] in_reach(a, start, es, k1, x)) by {
            if in_reach(a, start, es, k1, x) {
                let n = choose|n: NodeId| in_reach(a, start, es, (k1 - 1) as nat, n) && #[trigger] in_follow(a, n, es[k1 - 1], x);
                assert(false);
            }
        }
        lemma_empty_stays(a, start, es, k1, m);
    }
}
'''

CANARY = '''
proof fn canary_translate(a: AddressSpace, start: NodeId, es: Seq<RelativePathElement>, x: NodeId)
    requires es.len() == 2, in_reach(a, start, es, 2, x),
    ensures false,
{}
'''


def build(manifest):
    rp = Src('server/address_space/relative_path.rs', manifest)
    rf = Src('server/address_space/references.rs', manifest)
    re_ = Src('types/service_types/relative_path_element.rs', manifest)
    rpt = Src('types/service_types/relative_path.rs', manifest)
    rewrites = []
    f = {}
    t = norm_vis(clean_fn(rp.free_fn('follow_relative_path')))
    t = re.sub(r'^(\s*)fn ', r'\1pub fn ', t, count=1) if not re.match(r'\s*pub ', t) else t
    t = into_iter_collect_to_env(ref_iter_to_index_loop(t, rewrites, with_decreases=False), rewrites)
    t = splice_contract(t, SPEC['follow_relative_path'][1], 'r')
    t = '#[verifier::loop_isolation(false)]\n' + t
    if re.search(r'^\s*while\b', t, re.M):
        t = splice_loop(t, 0, FOLLOW_LOOP + '\n            decreases references@.len() - idx_reference,')
        t = splice_at(t, r'^\s*let reference = iter_nth\(&references, idx_reference\);', FOLLOW_BODY_HEAD, before=False)
        t = splice_at(t, r'^\s*idx_reference \+= 1;', FOLLOW_BODY_END, before=True)
        t = splice_at(t, r'^\s*let result = vec_into_set\(result\);', FOLLOW_END, before=True)
    f['follow_relative_path'] = t
    g = norm_vis(clean_fn(rp.free_fn('find_nodes_relative_path')))
    g = drain_for_each_to_loop(iter_to_index_loop(g, rewrites), rewrites)
    g = splice_contract(g, SPEC['find_nodes_relative_path'][1], 'r')
    g = '#[verifier::loop_isolation(false)]\n#[verifier::allow_complex_invariants]\n' + g
    if len(re.findall(r'^\s*while\b', g, re.M)) >= 2:
        g = splice_loop(g, 0, OUTER)
        g = splice_loop(g, 1, INNER)
        g = splice_at(g, r'^\s*let mut idx_node_id: usize = 0;', INNER_HEAD, before=True)
        if re.search(r'^\s*next_matching_nodes\.append\(&mut result\);', g, re.M):      # the hint goes with the statement it is about
            g = splice_at(g, r'^\s*next_matching_nodes\.append\(&mut result\);', APPEND_BEFORE, before=True)
            g = splice_at(g, r'^\s*next_matching_nodes\.append\(&mut result\);', APPEND_AFTER, before=False)
        g = splice_at(g, r'^\s*idx_node_id \+= 1;', INNER_BODY_END, before=True)
        g = splice_at(g, r'^\s*matching_nodes\.clear\(\);', AFTER_INNER, before=True)
    f['find_nodes_relative_path'] = g
    types = '\n'.join([rf.struct('Reference'), re_.struct('RelativePathElement'), rpt.struct('RelativePath')])
    a = Asm()
    a.add('use vstd::prelude::*;\nverus! {\nglobal size_of usize == 8;\n', 'prelude', 'env')
    a.add(norm_vis(types), 'types', 'env')
    a.add(status_code_struct(manifest), 'status codes', 'env')      # every status code of the real file (D14)
    a.add(ENV, 'env', 'env')
    a.add(f['follow_relative_path'], 'follow_relative_path', 'fn')
    a.add(f['find_nodes_relative_path'], 'find_nodes_relative_path', 'fn')
    add_proof_fns(a, LEMMAS, 'lemma')
    add_proof_fns(a, CANARY, 'canary')
    a.add('}\nfn main() {}\n')
    return dict(asm=a, pid=PID, short=SHORT, clauses={k: v[1] for k, v in SPEC.items()}, twins={}, witness={},
                verus_args=['--triggers-mode', 'silent'],
                assumptions=['C31: AddressSpace::find_references / find_inverse_references (References::find_references, find_inverse_references, '
                             'filter_references_by_type, reference_type_matches: iterator adapter chains and the subtype search over HasSubtype '
                             'references) are NOT under contract: they enter as functions of (node, reference type, subtype flag); that they return '
                             'the references of that type or its subtypes in that direction is assumed',
                             'C31: AddressSpace::find_node finds a node exactly when it exists and gives its browse name; QualifiedName equality is '
                             'field-wise (#[derive(PartialEq)]), the text of a name is not looked into',
                             'C31: rewrites D15 (for over elements.iter()), D19 (Vec -> HashSet -> Vec conversions as environment functions: every '
                             'element, each once), D21 (drain(..).for_each as the loop it stands for, then clear()), D23 (for over &references)',
                             'C31: the TranslateBrowsePathsToNodeIds service function around find_nodes_relative_path (locks, limits, one call per '
                             'browse path, targets built from the node ids) is not under contract'])
