"""C32 (range access part) — Verus unit: ByteString::substring (verbatim) for all lengths and ranges."""
from extract import *

PID = 'C32'
SHORT = 'range'

ENV = '''
pub assume_specification<T: Clone> [<[T]>::to_vec] (s: &[T]) -> (r: Vec<T>) ensures r@ == s@;
impl ByteString {
    // From<Vec<u8>> for ByteString (lib/src/types/byte_string.rs): wraps the vector
    pub fn from(v: Vec<u8>) -> (r: ByteString) ensures r.value == Some(v) { ByteString { value: Some(v) } }
}
'''
SPEC = {
    'substring': ('r', '''        requires min <= max,     // NumericRange::from_str only produces Index(i) -> (i, i) and Range(min, max) with min < max
        ensures
            // total: a null value or a start beyond the end is an error, everything else succeeds
            (r is Ok) == (self.value is Some && min < self.value->Some_0@.len()),
            // the result is exactly the bytes min ..= min(max, len - 1)
            r is Ok ==> ({
                let v = self.value->Some_0@;
                let hi = if max >= v.len() { v.len() - 1 } else { max as int };
                r->Ok_0.value is Some && r->Ok_0.value->Some_0@ == v.subrange(min as int, hi + 1)
            }),'''),
}
CANARY = '''
proof fn canary_substring(b: ByteString, min: usize, max: usize)
    requires b.value is Some, min < b.value->Some_0@.len(), min <= max,
    ensures false,
{}
'''


def build(manifest):
    src = Src('types/byte_string.rs', manifest)
    f = clean_fn(src.impl_fn(r'^impl ByteString \{', 'substring'))
    f = splice_contract(f, SPEC['substring'][1], 'r')
    a = Asm()
    a.add('use vstd::prelude::*;\nverus! {\nglobal size_of usize == 8;\n', 'prelude', 'env')
    a.add(norm_vis(src.struct('ByteString')), 'types', 'env')
    a.add(ENV, 'env', 'env')
    a.add('impl ByteString {')
    a.add(f, 'substring', 'fn')
    a.add('}')
    add_proof_fns(a, CANARY, 'canary')
    a.add('}\nfn main() {}\n')
    return dict(asm=a, pid=PID, short=SHORT, clauses={k: v[1] for k, v in SPEC.items()}, twins={}, witness={}, assumptions=[])
