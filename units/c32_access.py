"""C32 (access rights) — Verus unit: the access decisions of the attribute service, verbatim:
AttributeService::{user_access_level, is_readable, is_writable} (server/services/attribute.rs),
Session::effective_user_access_level (server/session.rs), Variable::{user_access_level, access_level}
(server/address_space/variable.rs), with the real AttributeId / NodeType enums and the real flag values of
UserAccessLevel / AccessLevel / WriteMask (read out of the bitflags! blocks).

Proved: the Value attribute of a Variable is writable exactly when the CurrentWrite bit of its user access level is
set and readable exactly when the CurrentRead bit is set; every other attribute is writable exactly when the node has a
write mask with the bit Part 3 Table 43 assigns to that attribute (Value only on a VariableType, via
ValueForVariableType; UserRolePermissions never)."""
from extract import *

PID = 'C32'
SHORT = 'access'

ENV = '''
// ---- nodes: only what the access decision looks at
pub struct NodeId { pub x: u64 }
pub struct Session { pub x: u64 }
pub struct Object { pub x: u64 }
pub struct ObjectType { pub x: u64 }
pub struct ReferenceType { pub x: u64 }
pub struct VariableType { pub x: u64 }
pub struct View { pub x: u64 }
pub struct DataType { pub x: u64 }
pub struct Method { pub x: u64 }
// the write mask attribute stored in a node's Base (Option<u32>), whatever the node class
pub uninterp spec fn spec_write_mask(n: NodeType) -> Option<u32>;
// `&dyn Node` as returned by NodeType::as_node: only write_mask() is used here
pub struct NodeView { pub write_mask: Option<u32> }
impl NodeView {
    // Base::write_mask: self.write_mask.map(WriteMask::from_bits_truncate)
    #[verifier::external_body]
    pub fn write_mask(&self) -> (r: Option<WriteMask>)
        ensures r == (match self.write_mask { Some(b) => Some(WriteMask { bits: b & WriteMask::ALL }), None => None })
    { unimplemented!() }
}
impl NodeType {
    #[verifier::external_body]
    pub fn as_node(&self) -> (r: &NodeView) ensures r.write_mask == spec_write_mask(*self) { unimplemented!() }
    #[verifier::external_body]
    pub fn node_id(&self) -> (r: NodeId) { unimplemented!() }
}

// ---- specification
// Part 3 Table 43 (AttributeWriteMask): the bit that makes an attribute writable
pub open spec fn attr_bit(a: AttributeId) -> u32 {
    match a {
        AttributeId::AccessLevel => 0x1,
        AttributeId::ArrayDimensions => 0x2,
        AttributeId::BrowseName => 0x4,
        AttributeId::ContainsNoLoops => 0x8,
        AttributeId::DataType => 0x10,
        AttributeId::Description => 0x20,
        AttributeId::DisplayName => 0x40,
        AttributeId::EventNotifier => 0x80,
        AttributeId::Executable => 0x100,
        AttributeId::Historizing => 0x200,
        AttributeId::InverseName => 0x400,
        AttributeId::IsAbstract => 0x800,
        AttributeId::MinimumSamplingInterval => 0x1000,
        AttributeId::NodeClass => 0x2000,
        AttributeId::NodeId => 0x4000,
        AttributeId::Symmetric => 0x8000,
        AttributeId::UserAccessLevel => 0x1_0000,
        AttributeId::UserExecutable => 0x2_0000,
        AttributeId::UserWriteMask => 0x4_0000,
        AttributeId::ValueRank => 0x8_0000,
        AttributeId::WriteMask => 0x10_0000,
        AttributeId::Value => 0x20_0000,              // ValueForVariableType
        AttributeId::DataTypeDefinition => 0x40_0000,
        AttributeId::RolePermissions => 0x80_0000,
        AttributeId::AccessRestrictions => 0x100_0000,
        AttributeId::AccessLevelEx => 0x200_0000,
        AttributeId::UserRolePermissions => 0,        // reserved: never writable
    }
}
// the user access level the decision is made on: the variable's own (known bits only), CurrentRead for other nodes
pub open spec fn user_level(n: NodeType) -> u8 {
    match n { NodeType::Variable(v) => v.user_access_level & UserAccessLevel::ALL, _ => 1 }
}
pub open spec fn may_write(n: NodeType, a: AttributeId) -> bool {
    if n is Variable && a == AttributeId::Value {
        user_level(n) & 2 == 2                       // CurrentWrite
    } else {
        match spec_write_mask(n) {
            Some(raw) => a != AttributeId::UserRolePermissions && (a == AttributeId::Value ==> n is VariableType)
                && (raw & WriteMask::ALL) & attr_bit(a) == attr_bit(a),
            None => false,
        }
    }
}
'''

SPEC = {
    'effective_user_access_level': ('r', '''        ensures r == user_access_level,'''),
    'Variable::user_access_level': ('r', '''        ensures r.bits == self.user_access_level & UserAccessLevel::ALL,'''),
    'Variable::access_level': ('r', '''        ensures r.bits == self.access_level & AccessLevel::ALL,'''),
    'Variable::is_readable': ('r', '''        ensures r == ((self.access_level & AccessLevel::ALL) & 1 == 1),'''),
    'Variable::is_writable': ('r', '''        ensures r == ((self.access_level & AccessLevel::ALL) & 2 == 2),'''),
    'user_access_level': ('r', '''        ensures r.bits == user_level(*node),'''),
    'is_readable': ('r', '''        // readable only when the CurrentRead bit of the (effective) user access level is set
        ensures r ==> (user_level(*node) & 1 == 1),'''),
    # "succeeds only if the user access level allows writing": further refusals are not against the property
    'is_writable': ('r', '''        ensures r ==> may_write(*node, attribute_id),'''),
}

LEMMAS = '''
// the truncation to known bits does not matter for the bits that are tested
proof fn lemma_known_bits(raw: u32, level: u8)
    ensures
        (level & 0x0f) & 2 == 2 <==> level & 2 == 2,
        (level & 0x0f) & 1 == 1 <==> level & 1 == 1,
        forall|k: u32| k < 26 ==> (((raw & 0x03ff_ffff) & (1u32 << k) == (1u32 << k)) <==> (raw & (1u32 << k) == (1u32 << k))),
{
    assert((level & 0x0f) & 2 == 2 <==> level & 2 == 2) by (bit_vector);
    assert((level & 0x0f) & 1 == 1 <==> level & 1 == 1) by (bit_vector);
    assert forall|k: u32| k < 26 implies (((raw & 0x03ff_ffff) & (1u32 << k) == (1u32 << k)) <==> (raw & (1u32 << k) == (1u32 << k))) by {
        assert(k < 26 ==> (((raw & 0x03ff_ffff) & (1u32 << k) == (1u32 << k)) <==> (raw & (1u32 << k) == (1u32 << k)))) by (bit_vector);
    }
}
// a variable whose user access level lacks CurrentWrite is never value-writable, whatever its write mask says
proof fn lemma_user_level_decides_value_write(n: NodeType)
    requires n is Variable,
    ensures may_write(n, AttributeId::Value) == (user_level(n) & 2 == 2),
{
}
'''

CANARY = '''
proof fn canary_access(n: NodeType, a: AttributeId)
    requires may_write(n, a), n is Variable, a == AttributeId::Value,
    ensures false,
{}
'''


def bitflags_struct(src, name):
    """D14: a `bitflags! { pub struct N: T { const A = e; .. } }` block becomes `struct N { bits: T }` with one constant per
    flag (value computed from the flag's expression), ALL (union of the flags) and the three generated methods used here,
    with their documented meaning (contains: all bits of the argument are set; from_bits_truncate: unknown bits dropped)."""
    m = re.search(r'bitflags!\s*\{\s*(?:#\[[^\]]*\]\s*)*pub struct ' + name + r': (u8|u16|u32|u64) \{', src.text)
    if not m:
        raise Undecided('lost anchor: bitflags struct %s in %s' % (name, src.rel))
    i = src.text.index('{', m.end() - 1)
    j = _match_brace(src.text, i)
    body = src.text[i + 1:j]
    ty = m.group(1)
    consts, allv = [], 0
    for cm in re.finditer(r'^\s*const (\w+) = ([0-9x<| ]+);', body, re.M):
        expr = cm.group(2).strip()
        if not re.fullmatch(r'[0-9a-fx<| ]+', expr):
            raise Undecided('unsupported flag expression %s' % expr)
        v = eval(expr, {'__builtins__': {}})
        allv |= v
        consts.append('    pub const %s: %s = %s { bits: %d };' % (cm.group(1), name, name, v))
    if not consts:
        raise Undecided('lost anchor: no flags in %s' % name)
    src.manifest.add(file='lib/src/' + src.rel, name='bitflags ' + name, first_line=src._line(m.start()),
                     n_lines=src.text.count('\n', m.start(), j) + 1, sha=sha16(src.text[m.start():j + 1]))
    return '''#[derive(Clone, Copy)]
pub struct %(n)s { pub bits: %(t)s }
impl %(n)s {
%(c)s
    pub const ALL: %(t)s = %(a)d;
    pub fn contains(&self, other: %(n)s) -> (r: bool) ensures r == (self.bits & other.bits == other.bits) { self.bits & other.bits == other.bits }
    pub fn from_bits_truncate(bits: %(t)s) -> (r: %(n)s) ensures r.bits == bits & %(a)d { %(n)s { bits: bits & %(a)d } }
    pub fn bits(&self) -> (r: %(t)s) ensures r == self.bits { self.bits }
}
''' % dict(n=name, t=ty, c='\n'.join(consts), a=allv)


def _match_brace(s, i):
    d = 0
    for k in range(i, len(s)):
        if s[k] == '{':
            d += 1
        elif s[k] == '}':
            d -= 1
            if d == 0:
                return k
    raise Undecided('unbalanced braces')


def build(manifest):
    at = Src('server/services/attribute.rs', manifest)
    se = Src('server/session.rs', manifest)
    vb = Src('server/address_space/variable.rs', manifest)
    nd = Src('server/address_space/node.rs', manifest)
    am = Src('server/address_space/mod.rs', manifest)
    tm = Src('types/mod.rs', manifest)
    ta = Src('types/attribute.rs', manifest)
    f = {}
    for n in ['user_access_level', 'is_readable', 'is_writable']:
        f[n] = norm_vis(clean_fn(at.impl_fn(r'^impl AttributeService \{', n)))
    f['effective_user_access_level'] = norm_vis(clean_fn(se.impl_fn(r'^impl Session \{', 'effective_user_access_level')))
    for n in ['user_access_level', 'access_level', 'is_readable', 'is_writable']:
        f['Variable::' + n] = norm_vis(clean_fn(vb.impl_fn(r'^impl Variable \{', n)))
    for k in f:
        t = f[k]
        t = re.sub(r'^(\s*)fn ', r'\1pub fn ', t, count=1) if not re.match(r'\s*pub ', t) else t
        f[k] = splice_contract(t, SPEC[k][1], SPEC[k][0])
    types = '\n'.join([
        ta.enum('AttributeId', derive='Clone, Copy, PartialEq, Eq, Structural'),
        nd.enum('NodeType', derive=None),
        vb.struct('Variable', keep_fields=['access_level', 'user_access_level']),
        bitflags_struct(am, 'UserAccessLevel'), bitflags_struct(am, 'AccessLevel'), bitflags_struct(tm, 'WriteMask'),
    ])
    a = Asm()
    a.add('use vstd::prelude::*;\nverus! {\nglobal size_of usize == 8;\n', 'prelude', 'env')
    a.add(norm_vis(types), 'types', 'env')
    a.add(ENV, 'env', 'env')
    a.add('impl Session {')
    a.add(f['effective_user_access_level'], 'Session::effective_user_access_level', 'fn')
    a.add('}\nimpl Variable {')
    for n in ['user_access_level', 'access_level', 'is_readable', 'is_writable']:
        a.add(f['Variable::' + n], 'Variable::' + n, 'fn')
    a.add('}\npub struct AttributeService { pub x: u8 }\nimpl AttributeService {')
    for n in ['user_access_level', 'is_readable', 'is_writable']:
        a.add(f[n], n, 'fn')
    a.add('}')
    add_proof_fns(a, LEMMAS, 'lemma')
    add_proof_fns(a, CANARY, 'canary')
    a.add('}\nfn main() {}\n')
    return dict(asm=a, pid=PID, short=SHORT, clauses={k: v[1] for k, v in SPEC.items()}, twins={}, witness={},
                assumptions=['C32: bitflags-generated contains / from_bits_truncate / bits have their documented meaning; '
                             'NodeType::as_node().write_mask() returns the node\'s stored write mask truncated to the known bits '
                             '(Base::write_mask, a one-line Option::map)',
                             'C32: AttributeService::read_node_value / write_node_value call is_readable / is_writable first and answer '
                             'BadNotReadable / BadNotWritable when they say no: the two service functions (address space lookup, '
                             'str::parse::<NumericRange>, dyn Node attribute setters) are not under contract'])
