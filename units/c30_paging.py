"""C30 (paging part) — Verus unit: how a browse result is cut into pages and continued, verbatim:
ViewService::{reference_description_to_browse_result, browse_from_continuation_point} (server/services/view.rs),
Session::add_browse_continuation_point (server/session.rs) and
BrowseContinuationPoint::is_valid_browse_continuation_point (server/continuation_point.rs), with the real
BrowseResult / BrowseContinuationPoint structs and the session's real VecDeque of continuation points.

Proved for every result list, page size and starting index: no panic (subtraction, slices), a page is exactly the next
`max` references (or all that remain), a continuation point is issued exactly when references remain, it records the whole
list and the index of the first unsent reference, at most `max_browse_continuation_points` are kept; and, by induction over
the page contract, the pages from the first Browse to the last BrowseNext concatenate to exactly the full list, once, in
order (lemma_pages_concat)."""
from extract import *

PID = 'C30'
SHORT = 'paging'

ENV = '''
use std::collections::VecDeque;
pub assume_specification<T: Clone> [<[T]>::to_vec] (s: &[T]) -> (r: Vec<T>) ensures r@ == s@;
// std: the newest / oldest element of a VecDeque, if any
pub assume_specification<T, A: std::alloc::Allocator> [VecDeque::<T, A>::back] (v: &VecDeque<T, A>) -> (r: Option<&T>)
    ensures match r { Some(x) => v@.len() > 0 && *x == v@.last(), None => v@.len() == 0 };
pub assume_specification<T, A: std::alloc::Allocator> [VecDeque::<T, A>::front] (v: &VecDeque<T, A>) -> (r: Option<&T>)
    ensures match r { Some(x) => v@.len() > 0 && *x == v@[0], None => v@.len() == 0 };
// timestamps as tick counts (chrono::DateTime<Utc> is totally ordered)
pub type DateTimeUtc = i64;
pub struct ByteString { pub value: Option<Vec<u8>> }
impl ByteString {
    pub fn null() -> (r: ByteString) ensures r.value is None { ByteString { value: None } }
}
impl Clone for ByteString {
    #[verifier::external_body]
    fn clone(&self) -> (r: Self) ensures r == *self { unimplemented!() }
}
// #[derive(PartialEq)] on ByteString: same bytes (or both null)
pub open spec fn from_back(q: Seq<BrowseContinuationPoint>, j: int) -> BrowseContinuationPoint { q[q.len() - 1 - j] }
pub open spec fn bs(b: ByteString) -> Option<Seq<u8>> { match b.value { Some(v) => Some(v@), None => None } }
impl vstd::std_specs::cmp::PartialEqSpecImpl for ByteString {
    open spec fn obeys_eq_spec() -> bool { true }
    open spec fn eq_spec(&self, other: &ByteString) -> bool { bs(*self) == bs(*other) }
}
impl PartialEq for ByteString {
    #[verifier::external_body]
    fn eq(&self, other: &ByteString) -> (r: bool) { unimplemented!() }
}
// std HashSet<ByteString> made from a slice (rewrite D19, cloned form): holds exactly the byte strings of the slice
#[verifier::external_body]
#[verifier::reject_recursive_types(T)]
pub struct HashSet<T> { t: std::marker::PhantomData<T> }
impl HashSet<ByteString> {
    pub uninterp spec fn ids(&self) -> Set<Option<Seq<u8>>>;
    #[verifier::external_body]
    pub fn contains(&self, x: &ByteString) -> (r: bool) ensures r == self.ids().contains(bs(*x)) { unimplemented!() }
    #[verifier::external_body]
    pub fn len(&self) -> (r: usize) ensures r == self.ids().len() { unimplemented!() }
    #[verifier::external_body]
    pub fn is_empty(&self) -> (r: bool) ensures r == (self.ids().len() == 0) { unimplemented!() }
}
#[verifier::external_body]
pub fn cloned_into_set(v: &[ByteString]) -> (r: HashSet<ByteString>)
    ensures forall|x: Option<Seq<u8>>| #[trigger] r.ids().contains(x) == (exists|i: int| 0 <= i < v@.len() && bs(#[trigger] v@[i]) == x)
{ unimplemented!() }
// the id of a stored point is among the ids to release
pub open spec fn named(ids: Seq<ByteString>, cp: BrowseContinuationPoint) -> bool { exists|i: int| 0 <= i < ids.len() && bs(#[trigger] ids[i]) == bs(cp.id) }
pub mod random { use vstd::prelude::*; use super::ByteString; verus! {
    // crypto::random::byte_string(n): n random bytes, never the null byte string
    #[verifier::external_body]
    pub fn byte_string(number_of_bytes: usize) -> (r: ByteString)
        ensures r.value is Some, r.value->Some_0@.len() == number_of_bytes
    { unimplemented!() }
} }
#[derive(Clone)]
pub struct ReferenceDescription { pub x: u64 }
pub struct AddressSpace { pub last_modified: DateTimeUtc }
impl AddressSpace {
    pub fn last_modified(&self) -> (r: DateTimeUtc) ensures r == self.last_modified { self.last_modified }
}
// Arc<Mutex<Vec<..>>> holding the complete result: new/new wrap the vector, lock() gives access to it
pub struct Mutex<T> { pub v: T }
pub struct Arc<T> { pub v: T }
impl<T> Mutex<T> { pub fn new(v: T) -> (r: Self) ensures r.v == v { Mutex { v } } }
impl<T> Arc<T> { pub fn new(v: T) -> (r: Self) ensures r.v == v { Arc { v } } }
impl Arc<Mutex<Vec<ReferenceDescription>>> {
    #[verifier::external_body]
    pub fn lock(&self) -> (r: Vec<ReferenceDescription>) ensures r@ == self.v.v@ { unimplemented!() }
}
// ---- specification
pub open spec fn cp_list(cp: BrowseContinuationPoint) -> Seq<ReferenceDescription> { cp.reference_descriptions.v.v@ }
// a stored continuation point always points inside its list, at a reference that has not been sent
pub open spec fn cp_ok(cp: BrowseContinuationPoint) -> bool {
    cp.starting_index < cp_list(cp).len() && cp.max_references_per_node > 0
}
pub open spec fn session_ok(s: Session) -> bool {
    &&& s.max_browse_continuation_points > 0
    &&& s.browse_continuation_points@.len() <= s.max_browse_continuation_points
    &&& forall|i: int| 0 <= i < s.browse_continuation_points@.len() ==> cp_ok(#[trigger] s.browse_continuation_points@[i])
}
// one page: where it ends, and whether more remain
pub open spec fn more(len: int, start: int, max: int) -> bool { max > 0 && len - start > max }
pub open spec fn page_end(len: int, start: int, max: int) -> int { if more(len, start, max) { start + max } else { len } }
// what one call returns and leaves behind
pub open spec fn is_page(r: BrowseResult, list: Seq<ReferenceDescription>, start: int, max: int, last_modified: DateTimeUtc,
                         s0: Session, s1: Session) -> bool {
    &&& r.status_code == StatusCode::Good
    &&& r.references is Some
    &&& r.references->Some_0@ == list.subrange(start, page_end(list.len() as int, start, max))
    &&& s1.max_browse_continuation_points == s0.max_browse_continuation_points
    &&& if more(list.len() as int, start, max) {
            // a continuation point for the rest
            &&& r.continuation_point.value is Some
            &&& s1.browse_continuation_points@.len() >= 1
            &&& ({
                let cp = s1.browse_continuation_points@.last();
                &&& cp.id == r.continuation_point
                // what the point still has to deliver is the rest of the list (how it stores that — the whole list and an index, or
                // only the rest — is its own business)
                &&& cp.starting_index <= cp_list(cp).len()
                &&& cp_list(cp).subrange(cp.starting_index as int, cp_list(cp).len() as int) =~= list.subrange(start + max, list.len() as int)
                &&& cp.max_references_per_node == max
                &&& cp.address_space_last_modified == last_modified
            })
        } else {
            &&& r.continuation_point.value is None
            &&& s1.browse_continuation_points@ == s0.browse_continuation_points@
        }
}
// all pages from `start` on, concatenated
pub open spec fn pages_from(list: Seq<ReferenceDescription>, start: int, max: int) -> Seq<ReferenceDescription>
    decreases list.len() - start
{
    if 0 <= start <= list.len() {
        let e = page_end(list.len() as int, start, max);
        if more(list.len() as int, start, max) { list.subrange(start, e) + pages_from(list, e, max) } else { list.subrange(start, e) }
    } else { Seq::empty() }
}
'''

SPEC = {
    'is_valid_browse_continuation_point': ('r', '''        // valid exactly while the address space has not been modified after the point was made
        ensures r == (self.address_space_last_modified >= address_space.last_modified),'''),
    'add_browse_continuation_point': (None, '''        requires old(self).max_browse_continuation_points > 0,
        ensures
            final(self).max_browse_continuation_points == old(self).max_browse_continuation_points,
            // bounded: the oldest points make way, the new one is the newest
            final(self).browse_continuation_points@.len() <= final(self).max_browse_continuation_points,
            final(self).browse_continuation_points@.len() >= 1,
            final(self).browse_continuation_points@.last() == continuation_point,
            ({
                let q0 = old(self).browse_continuation_points@;
                let q1 = final(self).browse_continuation_points@;
                let dropped = q0.len() + 1 - q1.len();
                // the points that stay are the newest of the old ones, in order
                0 <= dropped <= q0.len() && q1.subrange(0, q1.len() - 1) == q0.subrange(dropped, q0.len() as int)
                    && (forall|i: int| 0 <= i < q1.len() - 1 ==> #[trigger] q1[i] == q0[i + dropped])
                    && (q0.len() < old(self).max_browse_continuation_points ==> dropped == 0)
            }),'''),
    'find_browse_continuation_point': ('r', '''        ensures final(self).max_browse_continuation_points == old(self).max_browse_continuation_points,
            // finds a stored point with that id AND removes it (a continuation point is used once); the others stay in order
            // (ids are 6 random bytes, assumed distinct: which one of two equal ids goes is not part of the property)
            match r {
                Some(cp) => exists|i: int| 0 <= i < old(self).browse_continuation_points@.len()
                    && #[trigger] old(self).browse_continuation_points@[i] == cp
                    && bs(cp.id) == bs(*id)
                    && final(self).browse_continuation_points@ == old(self).browse_continuation_points@.remove(i),
                None => final(self).browse_continuation_points@ == old(self).browse_continuation_points@
                    && forall|j: int| 0 <= j < old(self).browse_continuation_points@.len() ==> bs(old(self).browse_continuation_points@[j].id) != bs(*id),
            },'''),
    'remove_expired_browse_continuation_points': (None, '''        ensures final(self).max_browse_continuation_points == old(self).max_browse_continuation_points,
            // exactly the points made before the last modification of the address space go, the others stay in order
            final(self).browse_continuation_points@ == old(self).browse_continuation_points@.filter(
                |cp: BrowseContinuationPoint| cp.address_space_last_modified >= address_space.last_modified),'''),
    'remove_browse_continuation_points': (None, '''        ensures final(self).max_browse_continuation_points == old(self).max_browse_continuation_points,
            // BrowseNext with releaseContinuationPoints: exactly the named points go, the others stay in order
            final(self).browse_continuation_points@ == old(self).browse_continuation_points@.filter(
                |cp: BrowseContinuationPoint| !named(continuation_points@, cp)),'''),
    'reference_description_to_browse_result': ('r', '''        requires starting_index <= reference_descriptions@.len(), session_ok(*old(session)),
        ensures
            is_page(r, reference_descriptions@, starting_index as int, max_references_per_node as int,
                    address_space.last_modified, *old(session), *final(session)),
            session_ok(*final(session)),'''),
    'browse_from_continuation_point': ('r', '''        requires session_ok(*old(session)),
        ensures session_ok(*final(session)),
            // an unknown (or used, or released, or expired) continuation point is refused and nothing is returned or issued
            // (with which Bad status it is refused is not part of the property)
            r.status_code != StatusCode::Good ==> r.references is None && r.continuation_point.value is None
                && final(session).browse_continuation_points@.len() <= old(session).browse_continuation_points@.len(),     // nothing is issued (a refused point may be dropped)
            // otherwise the answer is the next page of the list the point recorded, and the point itself is used up
            r.status_code == StatusCode::Good ==> exists|i: int| 0 <= i < old(session).browse_continuation_points@.len() && ({
                let cp = #[trigger] old(session).browse_continuation_points@[i];
                &&& bs(cp.id) == bs(*continuation_point)
                &&& r.references is Some
                &&& r.references->Some_0@ == cp_list(cp).subrange(cp.starting_index as int,
                        page_end(cp_list(cp).len() as int, cp.starting_index as int, cp.max_references_per_node as int))
                &&& (r.continuation_point.value is Some) == more(cp_list(cp).len() as int, cp.starting_index as int, cp.max_references_per_node as int)
            }),'''),
}

LEMMAS = '''
// C30: following the continuation points from index `start` to the end returns exactly list[start..], once, in order
proof fn lemma_pages_concat(list: Seq<ReferenceDescription>, start: int, max: int)
    requires 0 <= start <= list.len(), max >= 0,
    ensures pages_from(list, start, max) == list.subrange(start, list.len() as int),
    decreases list.len() - start,
{
    let e = page_end(list.len() as int, start, max);
    if more(list.len() as int, start, max) {
        lemma_pages_concat(list, e, max);
        assert(list.subrange(start, e) + list.subrange(e, list.len() as int) =~= list.subrange(start, list.len() as int));
    }
}
// in particular a Browse (start 0) followed by BrowseNext until no continuation point remains returns the whole list
proof fn lemma_browse_then_next_is_unlimited_browse(list: Seq<ReferenceDescription>, max: int)
    requires max >= 0,
    ensures pages_from(list, 0, max) == list,
{
    lemma_pages_concat(list, 0, max);
    assert(list.subrange(0, list.len() as int) =~= list);
}
// progress: a continuation point issued by a page points strictly further and still inside the list
proof fn lemma_progress(len: int, start: int, max: int)
    requires 0 <= start <= len, more(len, start, max),
    ensures start < page_end(len, start, max) < len,
{
}
'''

CANARY = '''
proof fn canary_paging(s: Session, list: Seq<ReferenceDescription>)
    requires session_ok(s), s.browse_continuation_points@.len() == 2, more(list.len() as int, 3, 5),
    ensures false,
{}
'''


def build(manifest):
    vw = Src('server/services/view.rs', manifest)
    se = Src('server/session.rs', manifest)
    cp = Src('server/continuation_point.rs', manifest)
    br = Src('types/service_types/browse_result.rs', manifest)
    f = {}
    for n in ['reference_description_to_browse_result', 'browse_from_continuation_point']:
        f[n] = norm_vis(clean_fn(vw.impl_fn(r'^impl ViewService \{', n)))
    f['add_browse_continuation_point'] = norm_vis(clean_fn(se.impl_fn(r'^impl Session \{', 'add_browse_continuation_point')))
    rewrites = []
    f['find_browse_continuation_point'] = position_to_loop(norm_vis(clean_fn(se.impl_fn(r'^impl Session \{', 'find_browse_continuation_point'))), rewrites)
    f['remove_expired_browse_continuation_points'] = retain_to_loop(norm_vis(clean_fn(se.impl_fn(r'^impl Session \{', 'remove_expired_browse_continuation_points'))), rewrites)
    f['remove_browse_continuation_points'] = retain_to_loop(into_iter_collect_to_env(norm_vis(clean_fn(se.impl_fn(r'^impl Session \{', 'remove_browse_continuation_points'))), rewrites), rewrites)
    f['is_valid_browse_continuation_point'] = norm_vis(clean_fn(cp.impl_fn(r'^impl BrowseContinuationPoint \{', 'is_valid_browse_continuation_point')))
    for k in f:
        t = f[k]
        t = re.sub(r'^(\s*)fn ', r'\1pub fn ', t, count=1) if not re.match(r'\s*pub ', t) else t
        f[k] = splice_contract(t, SPEC[k][1], SPEC[k][0])
    g = f['add_browse_continuation_point']
    g = splice_at(g, r'^\s*while\b',
                  '        let ghost q0 = self.browse_continuation_points@;', before=True)
    g = splice_loop(g, 0, '''            invariant self.max_browse_continuation_points == old(self).max_browse_continuation_points,
                self.max_browse_continuation_points > 0,
                self.browse_continuation_points@.len() <= q0.len(),
                self.browse_continuation_points@ == q0.subrange(q0.len() - self.browse_continuation_points@.len(), q0.len() as int),
                q0.len() < self.max_browse_continuation_points ==> self.browse_continuation_points@.len() == q0.len(),
            decreases self.browse_continuation_points@.len(),''')
    f['add_browse_continuation_point'] = g
    h = f['find_browse_continuation_point']
    if 'D17 position over self.browse_continuation_points' in rewrites:
        h = splice_loop(h, 0, '''                invariant pos_continuation_point <= self.browse_continuation_points@.len(),
                    self.browse_continuation_points@ == old(self).browse_continuation_points@,
                    self.max_browse_continuation_points == old(self).max_browse_continuation_points,
                    forall|j: int| 0 <= j < pos_continuation_point ==> bs(self.browse_continuation_points@[j].id) != bs(*id),
                    found_continuation_point is Some ==> found_continuation_point->Some_0 == pos_continuation_point
                        && pos_continuation_point < self.browse_continuation_points@.len()
                        && bs(self.browse_continuation_points@[pos_continuation_point as int].id) == bs(*id),
                decreases self.browse_continuation_points@.len() - pos_continuation_point + (if found_continuation_point is None { 1int } else { 0int }),''')
    elif any(r.startswith('D17 position over self.browse_continuation_points (reversed') for r in rewrites):
        # the same search from the newest point backwards: position i means the element at len - 1 - i
        h = splice_loop(h, 0, '''                invariant pos_continuation_point <= self.browse_continuation_points@.len(),
                    self.browse_continuation_points@ == old(self).browse_continuation_points@,
                    self.max_browse_continuation_points == old(self).max_browse_continuation_points,
                    forall|k: int| self.browse_continuation_points@.len() - pos_continuation_point <= k < self.browse_continuation_points@.len() ==> bs((#[trigger] self.browse_continuation_points@[k]).id) != bs(*id),
                    found_continuation_point is Some ==> found_continuation_point->Some_0 == pos_continuation_point
                        && pos_continuation_point < self.browse_continuation_points@.len()
                        && bs(self.browse_continuation_points@[self.browse_continuation_points@.len() - 1 - pos_continuation_point].id) == bs(*id),
                decreases self.browse_continuation_points@.len() - pos_continuation_point + (if found_continuation_point is None { 1int } else { 0int }),''')
    f['find_browse_continuation_point'] = h
    h = f['remove_expired_browse_continuation_points']
    if 'D18 retain over self.browse_continuation_points' in rewrites:
        h = splice_at(h, r'^\s*while\b', '''        let ghost q0 = self.browse_continuation_points@;
        let ghost mut done: int = 0;''', before=True)
        h = splice_loop(h, 0, '''            invariant 0 <= done <= q0.len(), idx_continuation_point <= self.browse_continuation_points@.len(),
                self.max_browse_continuation_points == old(self).max_browse_continuation_points,
                idx_continuation_point == q0.subrange(0, done).filter(|cp: BrowseContinuationPoint| cp.address_space_last_modified >= address_space.last_modified).len(),
                self.browse_continuation_points@ == q0.subrange(0, done).filter(|cp: BrowseContinuationPoint| cp.address_space_last_modified >= address_space.last_modified)
                    + q0.subrange(done, q0.len() as int),
            decreases q0.len() - done,''')
        h = splice_at(h, r'^\s*if keep_continuation_point \{', '''            proof {
                assert(q0.subrange(0, done + 1).drop_last() =~= q0.subrange(0, done));
                reveal_with_fuel(Seq::filter, 2);
                done = done + 1;
            }''', before=True)
        h = h.rstrip()
        k = h.rindex('}')
        h = h[:k] + '        proof { assert(q0.subrange(0, q0.len() as int) =~= q0); }\n    }\n'
    f['remove_expired_browse_continuation_points'] = h
    h = f['remove_browse_continuation_points']
    if rewrites.count('D18 retain over self.browse_continuation_points') >= 2 and re.search(r'^\s*while\b', h, re.M):
        # ghost state at the start of the body (visible in the whole function, wherever the loop ends up)
        h = splice_body_start(h, '''        let ghost q0 = self.browse_continuation_points@;
        let ghost mut done: int = 0;''')
        h = splice_loop(h, 0, '''            invariant 0 <= done <= q0.len(), idx_continuation_point <= self.browse_continuation_points@.len(),
                self.max_browse_continuation_points == old(self).max_browse_continuation_points,
                forall|x: Option<Seq<u8>>| #[trigger] continuation_points_set.ids().contains(x) == (exists|i: int| 0 <= i < continuation_points@.len() && bs(#[trigger] continuation_points@[i]) == x),
                idx_continuation_point == q0.subrange(0, done).filter(|cp: BrowseContinuationPoint| !named(continuation_points@, cp)).len(),
                self.browse_continuation_points@ == q0.subrange(0, done).filter(|cp: BrowseContinuationPoint| !named(continuation_points@, cp))
                    + q0.subrange(done, q0.len() as int),
            decreases q0.len() - done,''')
        h = splice_at(h, r'^\s*if keep_continuation_point \{', '''            proof {
                assert(q0.subrange(0, done + 1).drop_last() =~= q0.subrange(0, done));
                reveal_with_fuel(Seq::filter, 2);
                assert(keep_continuation_point == !named(continuation_points@, q0[done]));
                done = done + 1;
            }''', before=True)
        h = h.rstrip()
        k = h.rindex('}')
        h = h[:k] + '        proof { assert(q0.subrange(0, q0.len() as int) =~= q0); }\n    }\n'
    f['remove_browse_continuation_points'] = h
    types = '\n'.join([
        br.struct('BrowseResult'),
        cp.struct('BrowseContinuationPoint'),
        se.struct('Session', keep_fields=['max_browse_continuation_points', 'browse_continuation_points']),
    ])
    a = Asm()
    a.add('#![feature(allocator_api)]\nuse vstd::prelude::*;\nverus! {\nglobal size_of usize == 8;\n', 'prelude', 'env')
    a.add(norm_vis(types), 'types', 'env')
    a.add(status_code_struct(manifest), 'status codes', 'env')      # every status code of the real file (D14)
    a.add(ENV, 'env', 'env')
    a.add('impl BrowseContinuationPoint {')
    a.add(f['is_valid_browse_continuation_point'], 'is_valid_browse_continuation_point', 'fn')
    a.add('}\nimpl Session {')
    a.add(f['add_browse_continuation_point'], 'add_browse_continuation_point', 'fn')
    a.add(f['find_browse_continuation_point'], 'find_browse_continuation_point', 'fn')
    a.add(f['remove_expired_browse_continuation_points'], 'remove_expired_browse_continuation_points', 'fn')
    a.add(f['remove_browse_continuation_points'], 'remove_browse_continuation_points', 'fn')
    a.add('}\npub struct ViewService { pub x: u8 }\nimpl ViewService {')
    a.add(f['reference_description_to_browse_result'], 'reference_description_to_browse_result', 'fn')
    a.add(f['browse_from_continuation_point'], 'browse_from_continuation_point', 'fn')
    a.add('}')
    add_proof_fns(a, LEMMAS, 'lemma')
    add_proof_fns(a, CANARY, 'canary')
    a.add('}\nfn main() {}\n')
    return dict(asm=a, pid=PID, short=SHORT, clauses={k: v[1] for k, v in SPEC.items()}, twins={}, witness={},
                assumptions=['C30: rewrites D17 / D18 — `iter().position(|x| P)` and `retain(|x| B)` over the VecDeque of continuation points are '
                             'replaced by the search / in-place filter loops they stand for; VecDeque::back / front have their std meaning',
                             'C30: random::byte_string never returns the null byte string; ids of live continuation points do not '
                             'collide (6 random bytes)',
                             'C30: the Arc<Mutex<Vec<ReferenceDescription>>> of a continuation point holds the list it was created with '
                             '(no other writer: the Arc is never shared outside the point)',
                             'C30: the first page is cut by the same function from the list Browse computed; how that list is '
                             'computed (AddressSpace::find_references, filters, masks) is not under contract, nor is '
                             'remove_browse_continuation_points (release)'])
