"""C09 / C08 — Verus unit over the secure-channel receive path, extracted verbatim from
lib/src/core/comms/secure_channel.rs: verify_and_remove_security(_forensic), symmetric_decrypt_and_verify,
asymmetric_decrypt_and_verify, verify_padding, update_message_size_and_truncate, key accessors, and
SecurityPolicy::{symmetric_signature_size, is_supported}. Cryptography (OpenSSL) and the stream decoders are
environment with assumed contracts.

variant 'total' (C09): every index, slice, subtraction, unwrap and panic! on the path is an obligation for all lengths.
variant 'mac'   (C08): the same text with the authentication postconditions; only pre/postcondition failures count."""
from extract import *

SHORT = 'receive'

PADSPEC = '''
// bytes k..e of `plain` are a Part 6 padding: e - k bytes (1..=256), each holding e - k - 1 (the count of bytes that
// follow the size byte; the size byte itself is the first of them and has the same value)
pub open spec fn is_padding(plain: Seq<u8>, k: int, e: int) -> bool {
    &&& 0 <= k < e <= plain.len()
    &&& e - k <= 256
    &&& forall|i: int| k <= i < e ==> plain[i] == (e - k - 1) as u8
}
// the same with the extra padding size byte used for keys longer than 2048 bits: e - k - 2 is a 16-bit number whose
// low byte fills bytes k..e-1 and whose high byte is byte e-1
pub open spec fn is_padding2(plain: Seq<u8>, k: int, e: int) -> bool {
    &&& 0 <= k && k + 2 <= e <= plain.len()
    &&& e - k - 2 <= 0xffff
    &&& forall|i: int| k <= i < e - 1 ==> plain[i] as int == (e - k - 2) % 256
    &&& plain[e - 1] as int == (e - k - 2) / 256
}
'''

ENV = '''
use std::ops::Range;
pub assume_specification<T: Clone> [<[T]>::to_vec] (s: &[T]) -> (r: Vec<T>) ensures r@ == s@;
// std: clone_from_slice panics unless both slices have the same length, then copies
pub assume_specification<T: Clone> [<[T]>::clone_from_slice] (dst: &mut [T], src: &[T])
    requires old(dst)@.len() == src@.len(),
    ensures final(dst)@ == src@;
pub assume_specification<Idx: Clone> [<Range<Idx> as Clone>::clone] (r: &Range<Idx>) -> (c: Range<Idx>) ensures c == *r;
pub struct DecodingOptions { pub x: u8 }
pub struct MessageChunkHeader { pub message_type: MessageChunkType, pub is_final: MessageIsFinalType, pub message_size: u32, pub secure_channel_id: u32 }
impl MessageChunkType {
    pub fn is_open_secure_channel(&self) -> (r: bool) ensures r == (*self == MessageChunkType::OpenSecureChannel) { *self == MessageChunkType::OpenSecureChannel }
}
// whether the chunk header of these bytes says OPN (a function of the first three bytes)
pub uninterp spec fn spec_is_opn(src: Seq<u8>) -> bool;
// std::io::Cursor over the received bytes: only its position matters here
pub struct Cursor<'a> { pub data: &'a [u8], pub pos: u64 }
impl<'a> Cursor<'a> {
    #[verifier::external_body]
    pub fn new(data: &'a &'a [u8]) -> (r: Cursor<'a>) ensures r.data@ == (*data)@, r.pos == 0 { unimplemented!() }
    pub fn position(&self) -> (r: u64) ensures r == self.pos { self.pos }
}
// ---- stream decoders (BinaryEncoder impls over S: Read — generic I/O is outside the Verus dialect). Assumed: a
// ---- successful decode leaves the position inside the buffer and past what it consumed (re-checked by Kani, c09::c09_env_*)
impl MessageChunkHeader {
    #[verifier::external_body]
    pub fn decode(stream: &mut Cursor, o: &DecodingOptions) -> (r: Result<MessageChunkHeader, StatusCode>)
        ensures final(stream).data@ == old(stream).data@, r is Ok ==> final(stream).pos == old(stream).pos + 12 && final(stream).pos <= old(stream).data@.len(),
            (r is Ok && old(stream).pos == 0) ==> (r->Ok_0.message_type == MessageChunkType::OpenSecureChannel) == spec_is_opn(old(stream).data@),
    { unimplemented!() }
}
pub struct UAString { pub v: Option<String> }
impl UAString { #[verifier::external_body] pub fn as_ref(&self) -> &str { unimplemented!() } }
pub struct ByteString { pub value: Option<Vec<u8>> }
impl ByteString {
    pub fn is_null(&self) -> (r: bool) ensures r == (self.value is None) { self.value.is_none() }
    #[verifier::external_body] pub fn as_ref(&self) -> (r: &[u8]) { unimplemented!() }
}
pub struct AsymmetricSecurityHeader { pub security_policy_uri: UAString, pub sender_certificate: ByteString, pub receiver_certificate_thumbprint: ByteString }
pub struct SymmetricSecurityHeader { pub token_id: u32 }
pub enum SecurityHeader { Asymmetric(AsymmetricSecurityHeader), Symmetric(SymmetricSecurityHeader) }
impl AsymmetricSecurityHeader {
    #[verifier::external_body]
    pub fn decode(stream: &mut Cursor, o: &DecodingOptions) -> (r: Result<AsymmetricSecurityHeader, StatusCode>)
        ensures final(stream).data@ == old(stream).data@, r is Ok ==> old(stream).pos <= final(stream).pos <= old(stream).data@.len()
    { unimplemented!() }
}
impl SymmetricSecurityHeader {
    #[verifier::external_body]
    pub fn decode(stream: &mut Cursor, o: &DecodingOptions) -> (r: Result<SymmetricSecurityHeader, StatusCode>)
        ensures final(stream).data@ == old(stream).data@, r is Ok ==> final(stream).pos == old(stream).pos + 4 && final(stream).pos <= old(stream).data@.len()
    { unimplemented!() }
}
// ---- cryptography (OpenSSL): uninterpreted verification predicates, assumed contracts
pub uninterp spec fn spec_mac_ok(p: SecurityPolicy, key: Seq<u8>, data: Seq<u8>, sig: Seq<u8>) -> bool;
pub uninterp spec fn spec_rsa_sig_ok(p: SecurityPolicy, key: PublicKey, data: Seq<u8>, sig: Seq<u8>) -> bool;
pub struct AesKey { pub value: Vec<u8> }
pub struct PublicKey { pub sz: usize }
pub struct PrivateKey { pub sz: usize }
pub struct X509 { pub k: PublicKey }
impl X509 {
    #[verifier::external_body] pub fn from_byte_string(b: &ByteString) -> (r: Result<X509, StatusCode>) { unimplemented!() }
    #[verifier::external_body] pub fn public_key(&self) -> (r: Result<PublicKey, StatusCode>) ensures r is Ok ==> r->Ok_0 == self.k { unimplemented!() }
    #[verifier::external_body] pub fn thumbprint(&self) -> (r: Thumbprint) { unimplemented!() }
}
impl PublicKey {
    // RSA keys accepted by the policies are 1024..4096 bits: 128..=512 bytes
    #[verifier::external_body] pub fn size(&self) -> (r: usize) ensures r == self.sz, 128 <= r <= 512 { unimplemented!() }
}
#[verifier::external_body]
pub fn slices_differ(a: &[u8], b: &[u8]) -> (r: bool) ensures r == (a@ != b@) { unimplemented!() }
impl SecurityPolicy {
    #[verifier::external_body] pub fn from_uri(uri: &str) -> SecurityPolicy { unimplemented!() }
    // HMAC verification: Ok only if the MAC of `data` under `key` is `signature`
    #[verifier::external_body]
    pub fn symmetric_verify_signature(&self, key: &[u8], data: &[u8], signature: &[u8]) -> (r: Result<bool, StatusCode>)
        ensures r is Ok ==> spec_mac_ok(*self, key@, data@, signature@)
    { unimplemented!() }
    // AES-CBC without padding is length preserving; the destination length is unchanged
    #[verifier::external_body]
    pub fn symmetric_decrypt(&self, key: &AesKey, iv: &[u8], src: &[u8], dst: &mut [u8]) -> (r: Result<usize, StatusCode>)
        ensures final(dst)@.len() == old(dst)@.len(), r is Ok ==> r->Ok_0 == src@.len() && src@.len() <= old(dst)@.len(),
    { unimplemented!() }
    // RSA block decryption never produces more plaintext than ciphertext
    #[verifier::external_body]
    pub fn asymmetric_decrypt(&self, decryption_key: &PrivateKey, src: &[u8], dst: &mut [u8]) -> (r: Result<usize, StatusCode>)
        ensures final(dst)@.len() == old(dst)@.len(), r is Ok ==> r->Ok_0 <= src@.len() && r->Ok_0 <= old(dst)@.len(),
    { unimplemented!() }
    #[verifier::external_body]
    pub fn asymmetric_verify_signature(&self, verification_key: &PublicKey, data: &[u8], signature: &[u8], their_private_key: Option<PrivateKey>) -> (r: Result<(), StatusCode>)
        ensures r is Ok ==> spec_rsa_sig_ok(*self, *verification_key, data@, signature@)
    { unimplemented!() }
}
pub struct MessageChunk { pub data: Vec<u8> }

// ---- specification
pub open spec fn supported(p: SecurityPolicy) -> bool { p != SecurityPolicy::None && p != SecurityPolicy::Unknown }
pub open spec fn sig_len(p: SecurityPolicy) -> int {
    match p { SecurityPolicy::None => 0, SecurityPolicy::Basic128Rsa15 | SecurityPolicy::Basic256 => 20, _ => 32 }
}
pub open spec fn secured_mode(m: MessageSecurityMode) -> bool { m == MessageSecurityMode::Sign || m == MessageSecurityMode::SignAndEncrypt }
// caller invariant of the transport: once a policy/mode pair other than None is in force, the keys are derived
pub open spec fn keys_ready(c: &SecureChannel) -> bool {
    (c.security_policy != SecurityPolicy::None && secured_mode(c.security_mode)) ==> (supported(c.security_policy) && c.remote_keys is Some)
}
PADSPEC// the chunk bytes with the 32-bit little-endian size field (bytes 4..8) rewritten: what update_message_size produces
pub mod axs { use vstd::prelude::*; verus! {
pub uninterp spec fn spec_with_size(data: Seq<u8>, size: nat) -> Seq<u8>;
#[verifier::external_body]
pub broadcast proof fn axiom_with_size_len(data: Seq<u8>, size: nat)
    ensures (#[trigger] spec_with_size(data, size)).len() == data.len()
{}
} }
pub use axs::spec_with_size;
'''.replace('PADSPEC', PADSPEC)

ENV_FNS = '''
impl SecureChannel {
    #[verifier::external_body]
    fn log_crypto_data(message: &str, data: &[u8]) {}
    // the loop over `padding_bytes.iter().enumerate()` is outside the Verus dialect; contract re-checked by Kani (c09::c09_env_padding)
    #[verifier::external_body]
    fn check_padding_bytes(padding_bytes: &[u8], expected_padding_byte: u8, padding_range_start: usize) -> (r: Result<(), StatusCode>)
        ensures r is Ok ==> (forall|i: int| 0 <= i < padding_bytes@.len() ==> padding_bytes@[i] == expected_padding_byte)
    { unimplemented!() }
    // Cursor<&mut [u8]> + MessageChunkHeader::{decode,encode}: rewrites the size field, nothing else
    #[verifier::external_body]
    fn update_message_size(data: &mut [u8], message_size: usize, decoding_options: &DecodingOptions) -> (r: Result<(), StatusCode>)
        ensures final(data)@.len() == old(data)@.len(), r is Ok ==> final(data)@ == spec_with_size(old(data)@, message_size as nat)
    { unimplemented!() }
}
'''

TOTAL = {
    'symmetric_signature_size': ('r', '''        requires *self != SecurityPolicy::Unknown,
        ensures r == sig_len(*self),'''),
    'is_supported': ('r', '''        ensures r == (*self != SecurityPolicy::Unknown),'''),
    'remote_keys': ('r', '''        requires self.remote_keys is Some,
        ensures *r == self.remote_keys->Some_0,'''),
    'decryption_keys': ('r', '''        requires self.remote_keys is Some,
        ensures *r.0 == self.remote_keys->Some_0.1, r.1@ == self.remote_keys->Some_0.2@,'''),
    'verification_key': ('r', '''        requires self.remote_keys is Some,
        ensures r@ == self.remote_keys->Some_0.0@,'''),
    'expect_supported_security_policy': (None, '''        requires supported(self.security_policy),'''),
    'symmetric_decrypt_and_verify': ('r', '''        requires
            self.security_mode != MessageSecurityMode::Invalid,
            secured_mode(self.security_mode) ==> (supported(self.security_policy) && self.remote_keys is Some),
            // what the caller can establish from untrusted bytes:
            old(dst)@.len() == src@.len(), src@.len() <= 0x7fff_ffff,
            signed_range.start == 0, signed_range.end + sig_len(self.security_policy) == src@.len(),
            encrypted_range.start <= signed_range.end, encrypted_range.end == src@.len(),
        ensures
            final(dst)@.len() == old(dst)@.len(),
            r is Ok ==> r->Ok_0 == src@.len(),
            MAC_CLAUSE'''),
    'verify_padding': ('r', '''        requires padding_end <= src@.len(),
        ensures r is Ok ==> r->Ok_0.start <= r->Ok_0.end && r->Ok_0.end == padding_end,
            PADV_CLAUSE'''),
    'asymmetric_decrypt_and_verify': ('r', '''        requires
            encrypted_range.start <= encrypted_range.end, encrypted_range.end == src@.len(), old(dst)@.len() == src@.len(),
        ensures
            final(dst)@.len() == old(dst)@.len(),
            r is Ok ==> r->Ok_0 <= old(dst)@.len(),
            RSA_CLAUSE'''),
    'update_message_size_and_truncate': ('r', '''        requires message_size <= data@.len(),
        ensures r is Ok ==> r->Ok_0@ == spec_with_size(data@, message_size as nat).subrange(0, message_size as int),'''),
    'verify_and_remove_security_forensic': ('r', '''        requires
            old(self).security_mode != MessageSecurityMode::Invalid, keys_ready(old(self)),
            src@.len() <= 0x7fff_ffff,
        ensures
            TOP_CLAUSE'''),
    'verify_and_remove_security': ('r', '''        requires
            old(self).security_mode != MessageSecurityMode::Invalid, keys_ready(old(self)),
            src@.len() <= 0x7fff_ffff,
        ensures
            TOP_CLAUSE'''),
}

MAC_CLAUSE = '''// C08: accepted => the MAC was verified, with the peer's signing key, over exactly the bytes that will be
            // delivered (everything before the signature) against exactly the trailing signature bytes
            (r is Ok && secured_mode(self.security_mode)) ==> ({
                let n = src@.len() as int;
                let s = sig_len(self.security_policy);
                &&& spec_mac_ok(self.security_policy, self.remote_keys->Some_0.0@, final(dst)@.subrange(0, n - s), final(dst)@.subrange(n - s, n))
                // in Sign mode the verified bytes are the received bytes themselves
                &&& (self.security_mode == MessageSecurityMode::Sign ==> final(dst)@ == src@)
                // the unencrypted headers are copied from the received bytes and are inside the MAC'd range
                &&& final(dst)@.subrange(0, encrypted_range.start as int) == src@.subrange(0, encrypted_range.start as int)
            }),'''
RSA_CLAUSE = '''// C08 (OPN): accepted => the RSA signature was verified with the sender certificate's key over every byte
            // before the signature, and the padding between body and signature was checked
            r is Ok ==> (exists|a: int, b: int| 0 <= a <= b <= final(dst)@.len() && r->Ok_0 <= a
                && spec_rsa_sig_ok(security_policy, *verification_key, final(dst)@.subrange(0, a), final(dst)@.subrange(a, b))),'''
PADV_CLAUSE = '''// the range is exactly the padding the size field(s) in front of `padding_end` announce, and every padding
            // byte was compared with the size byte (Part 6 6.7.2.5)
            (r is Ok && key_size <= 256) ==> is_padding(src@, r->Ok_0.start as int, padding_end as int),
            (r is Ok && key_size > 256) ==> is_padding2(src@, r->Ok_0.start as int, padding_end as int),'''
TOP_CLAUSE = '''// C08: on a secured channel a delivered MSG/CLO chunk is a prefix of the MAC-verified bytes with only its size field
            // rewritten (in Sign mode the verified bytes are the received bytes themselves)
            (r is Ok && old(self).security_policy != SecurityPolicy::None && secured_mode(old(self).security_mode)
                && !spec_is_opn(src@)) ==> ({
                let n = src@.len() as int;
                let s = sig_len(old(self).security_policy);
                exists|plain: Seq<u8>, k: nat|
                    #![trigger spec_mac_ok(old(self).security_policy, old(self).remote_keys->Some_0.0@, plain.subrange(0, n - s), plain.subrange(n - s, n)), spec_with_size(plain, k)]
                    plain.len() == n && k <= n - s
                    && spec_mac_ok(old(self).security_policy, old(self).remote_keys->Some_0.0@, plain.subrange(0, n - s), plain.subrange(n - s, n))
                    && r->Ok_0.data@ == spec_with_size(plain, k).subrange(0, k as int)
                    && (old(self).security_mode == MessageSecurityMode::Sign ==> plain == src@)PAD_TOP
            }),'''
# C07 (variant 'pad'): what is cut off besides the signature is exactly a well-formed padding (SignAndEncrypt) or nothing (Sign)
PAD_TOP = '''
                    && (old(self).security_mode == MessageSecurityMode::Sign ==> k == n - s)
                    && (old(self).security_mode == MessageSecurityMode::SignAndEncrypt ==> is_padding(plain, k as int, n - s))'''
PAD_LEMMAS = '''
// C07 receive half, over the two contracts: the sender (add_space_for_padding_and_signature, unit c07_send) produces
//   data ++ pad bytes each holding pad - 1 ++ signature      with pad = spec_pad >= 1 when encrypting, 0 otherwise;
// the receiver (contract above) delivers the first k bytes where bytes k..n-s are a well-formed padding. Then k is
// the length of the sender's chunk: exactly the padding is removed, whatever the body's own last bytes are.
proof fn lemma_receiver_removes_exactly_the_senders_padding(data: Seq<u8>, pad: nat, sig: Seq<u8>, k: nat)
    requires 1 <= pad <= 256,
        is_padding(data + Seq::new(pad, |i: int| (pad - 1) as u8) + sig, k as int, (data.len() + pad) as int),
    ensures k == data.len(),
{
    let plain = data + Seq::new(pad, |i: int| (pad - 1) as u8) + sig;
    let e = (data.len() + pad) as int;
    assert(plain[e - 1] == (pad - 1) as u8);
    assert(plain[e - 1] == (e - k - 1) as u8);
}
// and the sender's padding is a well-formed padding for the receiver
proof fn lemma_senders_padding_is_well_formed(data: Seq<u8>, pad: nat, sig: Seq<u8>)
    requires 1 <= pad <= 256,
    ensures is_padding(data + Seq::new(pad, |i: int| (pad - 1) as u8) + sig, data.len() as int, (data.len() + pad) as int),
{
}
'''


def build_variant(manifest, variant, pid):
    sc = Src('core/comms/secure_channel.rs', manifest)
    sp = Src('crypto/security_policy.rs', manifest)
    mc = Src('core/comms/message_chunk.rs', manifest)
    en = Src('types/service_types/enums.rs', manifest)
    tp = Src('crypto/thumbprint.rs', manifest)
    thumb = tp.struct('Thumbprint', derive='PartialEq, Eq, Structural').replace('Thumbprint::THUMBPRINT_SIZE', '20')
    tnew = splice_contract(norm_vis(clean_fn(tp.impl_fn(r'^impl Thumbprint \{', 'new'))).replace('Thumbprint::THUMBPRINT_SIZE', 'THUMBPRINT_SIZE'), '        requires digest@.len() == THUMBPRINT_SIZE,   // the function panics otherwise: callers must establish it\n        ensures r.value@ == digest@,', 'r')
    tval = splice_contract(full_slice(norm_vis(clean_fn(tp.impl_fn(r'^impl Thumbprint \{', 'value'))), 'self.value'), '        ensures r@ == self.value@,', 'r')
    types = '\n'.join([sp.enum('SecurityPolicy'), en.enum('MessageSecurityMode'), mc.enum('MessageChunkType'),
                       mc.enum('MessageIsFinalType'),
                       sc.struct('SecureChannel', keep_fields=['security_policy', 'security_mode', 'cert', 'private_key',
                                                               'remote_keys', 'decoding_options'])])
    spec = {}
    for k, (rn, cl) in TOTAL.items():
        if variant == 'mac':
            cl = cl.replace('MAC_CLAUSE', MAC_CLAUSE).replace('RSA_CLAUSE', RSA_CLAUSE).replace('TOP_CLAUSE', TOP_CLAUSE.replace('PAD_TOP', '')).replace('PADV_CLAUSE', 'true,')
        elif variant == 'pad':
            cl = cl.replace('MAC_CLAUSE', MAC_CLAUSE).replace('RSA_CLAUSE', 'true,').replace('TOP_CLAUSE', TOP_CLAUSE.replace('PAD_TOP', PAD_TOP)).replace('PADV_CLAUSE', PADV_CLAUSE)
        else:
            cl = cl.replace('MAC_CLAUSE', 'true,').replace('RSA_CLAUSE', 'true,').replace('TOP_CLAUSE', 'true,').replace('PADV_CLAUSE', 'true,')
        spec[k] = (rn, cl)
    fns = {}
    for n in ['symmetric_signature_size', 'is_supported']:
        fns[n] = sp.impl_fn(r'^impl SecurityPolicy \{', n)
    order = ['remote_keys', 'decryption_keys', 'verification_key', 'expect_supported_security_policy',
             'symmetric_decrypt_and_verify', 'verify_padding', 'asymmetric_decrypt_and_verify',
             'update_message_size_and_truncate', 'verify_and_remove_security_forensic', 'verify_and_remove_security']
    for n in order:
        fns[n] = sc.impl_fn(r'^impl SecureChannel \{', n)
    for k in fns:
        t = norm_vis(clean_fn(fns[k]))
        t = re.sub(r'^(\s*)fn ', r'\1pub fn ', t, count=1) if not re.match(r'\s*pub ', t) else t
        fns[k] = splice_contract(t, spec[k][1], spec[k][0])
    fns['symmetric_decrypt_and_verify'] = full_slice_mut(fns['symmetric_decrypt_and_verify'], 'decrypted_tmp')
    fns['update_message_size_and_truncate'] = full_slice_mut(fns['update_message_size_and_truncate'], 'data')
    # the thumbprint comparison `a != b` on slices: Verus has no executable != on slices; D9 rewrites the
    # comparison of two slice expressions into a call of an environment function with that meaning
    f = fns['asymmetric_decrypt_and_verify']
    # (applied where the pattern occurs; a different way of comparing is left to Verus as written)
    fns['asymmetric_decrypt_and_verify'] = f.replace('our_thumbprint.value() != receiver_thumbprint.as_ref()', 'slices_differ(our_thumbprint.value(), receiver_thumbprint.as_ref())')
    fns['verify_padding'] = splice_at(fns['verify_padding'], r'^\s*let padding_size = \(\(extra_padding_byte as usize\) << 8\)',
        '            proof { let x = extra_padding_byte as usize; assert(x << 8 == x * 256) by (bit_vector) requires x <= 255; }', before=True)
    # ghost hints tying the checked slice to the bytes of `src` (one per arm, in front of the arm's result expression)
    fns['verify_padding'] = splice_at(fns['verify_padding'], r'^\s*padding_range\s*$', '''            proof {
                let k = padding_range.start as int;
                let e = padding_end as int;
                let sl = src@.subrange(k, e - 1);
                assert forall|i: int| k <= i < e - 1 implies src@[i] as int == (e - k - 2) % 256 by { assert(src@[i] == sl[i - k]); }
            }''', before=True, occurrence=0)
    fns['verify_padding'] = splice_at(fns['verify_padding'], r'^\s*padding_range\s*$', '''            proof {
                let k = padding_range.start as int;
                let e = padding_end as int;
                let sl = src@.subrange(k, e);
                assert forall|i: int| k <= i < e implies src@[i] == (e - k - 1) as u8 by { assert(src@[i] == sl[i - k]); }
            }''', before=True, occurrence=1)
    a = Asm()
    a.add('use vstd::prelude::*;\nverus! {\nglobal size_of usize == 8;\n', 'prelude', 'env')
    a.add(norm_vis(types), 'types', 'env')
    a.add(norm_vis(thumb) + '\npub const THUMBPRINT_SIZE: usize = 20;\n', 'types_thumb', 'env')
    a.add(status_code_struct(manifest), 'status codes', 'env')      # every status code of the real file (D14)
    cr_ = Src('crypto/mod.rs', manifest)
    a.add(norm_vis(cr_.const('SHA1_SIZE')) + '\n' + norm_vis(cr_.const('SHA256_SIZE')), 'constants', 'env')      # the repository's own values
    a.add(ENV, 'env', 'env')
    a.add(ENV_FNS, 'env2', 'env')
    a.add('impl Thumbprint {')
    a.add(tnew, 'Thumbprint::new', 'fn')
    a.add(tval, 'Thumbprint::value', 'fn')
    a.add('}')
    a.add('broadcast use axs::axiom_with_size_len;\nimpl SecurityPolicy {')
    for n in ['symmetric_signature_size', 'is_supported']:
        a.add(fns[n], n, 'fn')
    a.add('}\nimpl SecureChannel {')
    for n in order:
        a.add(fns[n], n, 'fn')
    a.add('}')
    add_proof_fns(a, '''
proof fn canary_receive_pre(c: &SecureChannel, src: Seq<u8>)
    requires c.security_mode == MessageSecurityMode::SignAndEncrypt, c.security_policy == SecurityPolicy::Basic256Sha256, keys_ready(c), src.len() == 100,
    ensures false,
{}
''', 'canary')
    if variant == 'pad':
        add_proof_fns(a, PAD_LEMMAS, 'lemma')
    a.add('}\nfn main() {}\n')
    d = dict(asm=a, pid=pid, short=SHORT + {'mac': '_mac', 'pad': '_pad'}.get(variant, ''), clauses={k: v[1] for k, v in spec.items()},
             twins={}, witness={},
             assumptions=['%s: callers hold keys_ready (a policy/mode other than None is only in force once derive_keys has run) '
                          'and never use MessageSecurityMode::Invalid' % pid,
                          '%s: HMAC / RSA signature verification and AES / RSA decryption are OpenSSL: verify functions return Ok only '
                          'for a valid MAC/signature (unforgeability assumed), AES-CBC without padding preserves length' % pid])
    if variant in ('mac', 'pad'):
        d['only_kinds'] = r'postcondition not satisfied|precondition not satisfied'
    return d
