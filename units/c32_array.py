"""C32 (array index ranges) — Verus unit over the real index-range write and read of array values:
Variant::{type_id, scalar_data_type, array_data_type, eq_array_type, set_range_of, range_of}, the conversions
From<(VariantTypeId, Vec<Variant>)> / From<Array> for Variant, Array::{new, validate_array_type_to_values} and
Variable::set_value_range, with the real Variant / Array / VariantTypeId / NumericRange / DataValue types.

Proved for all arrays, ranges and written values: no panic (index, slice, the unwrap in the conversion), a rejected
write leaves the value unchanged, an accepted write changes exactly the addressed elements, array well-typedness is
preserved (so the read that follows cannot hit the unwrap), and a range read after a range write returns what was written."""
from extract import *

PID = 'C32'
SHORT = 'array'

ENV = '''
pub assume_specification<T: Clone> [<[T]>::to_vec] (s: &[T]) -> (r: Vec<T>) ensures r@ == s@;
// ---- the built-in types a Variant can hold, as far as this unit is concerned: opaque payloads
pub struct UAString { pub x: u64 }
pub type XmlElement = UAString;
pub struct ByteString { pub x: u64 }
#[derive(Clone, Copy)]
pub struct DateTime { pub ticks: i64 }
pub struct Guid { pub x: u64 }
pub struct QualifiedName { pub x: u64 }
pub struct LocalizedText { pub x: u64 }
pub struct ExpandedNodeId { pub x: u64 }
pub struct ExtensionObject { pub x: u64 }
pub struct DiagnosticInfo { pub x: u64 }
// a NodeId made from a DataTypeId (From<DataTypeId> for NodeId is NodeId::new(0, id as u32)): namespace 0 and the
// numeric id, which is kept as the DataTypeId itself (the enum discriminants are distinct)
#[derive(PartialEq, Eq, Structural)]
pub struct NodeId { pub namespace: u16, pub dt: DataTypeId }
impl DataTypeId {
    pub fn into(self) -> (r: NodeId) ensures r == (NodeId { namespace: 0, dt: self }) { NodeId { namespace: 0, dt: self } }
}
impl Clone for Variant {
    // #[derive(Clone)]
    #[verifier::external_body]
    fn clone(&self) -> (r: Self) ensures r == *self { unimplemented!() }
}
impl Variant {
    // Variant::substring: ByteString::substring is under contract in unit c32_range, UAString::substring under Kani;
    // here only: it may be called on String / ByteString only (its last arm is a panic!) and returns the same kind
    #[verifier::external_body]
    pub fn substring(&self, min: usize, max: usize) -> (r: Result<Variant, StatusCode>)
        requires *self is String || *self is ByteString,
        ensures r is Ok ==> type_of(r->Ok_0) == type_of(*self),
    { unimplemented!() }
}
// types/array.rs: `values.iter().any(|v| v.type_id() != expected_type)` negated (iterator adapters are outside the dialect)
#[verifier::external_body]
pub fn values_are_of_type(values: &[Variant], expected_type: VariantTypeId) -> (r: bool)
    ensures r == all_of_type(values@, expected_type)
{ unimplemented!() }

// ---- specification
pub open spec fn type_of(v: Variant) -> VariantTypeId {
    match v {
        Variant::Empty => VariantTypeId::Empty,
        Variant::Boolean(_) => VariantTypeId::Boolean,
        Variant::SByte(_) => VariantTypeId::SByte,
        Variant::Byte(_) => VariantTypeId::Byte,
        Variant::Int16(_) => VariantTypeId::Int16,
        Variant::UInt16(_) => VariantTypeId::UInt16,
        Variant::Int32(_) => VariantTypeId::Int32,
        Variant::UInt32(_) => VariantTypeId::UInt32,
        Variant::Int64(_) => VariantTypeId::Int64,
        Variant::UInt64(_) => VariantTypeId::UInt64,
        Variant::Float(_) => VariantTypeId::Float,
        Variant::Double(_) => VariantTypeId::Double,
        Variant::String(_) => VariantTypeId::String,
        Variant::DateTime(_) => VariantTypeId::DateTime,
        Variant::Guid(_) => VariantTypeId::Guid,
        Variant::StatusCode(_) => VariantTypeId::StatusCode,
        Variant::ByteString(_) => VariantTypeId::ByteString,
        Variant::XmlElement(_) => VariantTypeId::XmlElement,
        Variant::QualifiedName(_) => VariantTypeId::QualifiedName,
        Variant::LocalizedText(_) => VariantTypeId::LocalizedText,
        Variant::NodeId(_) => VariantTypeId::NodeId,
        Variant::ExpandedNodeId(_) => VariantTypeId::ExpandedNodeId,
        Variant::ExtensionObject(_) => VariantTypeId::ExtensionObject,
        Variant::Variant(_) => VariantTypeId::Variant,
        Variant::DataValue(_) => VariantTypeId::DataValue,
        Variant::DiagnosticInfo(_) => VariantTypeId::DiagnosticInfo,
        Variant::Array(_) => VariantTypeId::Array,
    }
}
// Part 6 table 1: the DataType node of each built-in type (extension objects and arrays have none here)
pub open spec fn dt_of(t: VariantTypeId) -> Option<DataTypeId> {
    match t {
        VariantTypeId::Boolean => Some(DataTypeId::Boolean),
        VariantTypeId::SByte => Some(DataTypeId::SByte),
        VariantTypeId::Byte => Some(DataTypeId::Byte),
        VariantTypeId::Int16 => Some(DataTypeId::Int16),
        VariantTypeId::UInt16 => Some(DataTypeId::UInt16),
        VariantTypeId::Int32 => Some(DataTypeId::Int32),
        VariantTypeId::UInt32 => Some(DataTypeId::UInt32),
        VariantTypeId::Int64 => Some(DataTypeId::Int64),
        VariantTypeId::UInt64 => Some(DataTypeId::UInt64),
        VariantTypeId::Float => Some(DataTypeId::Float),
        VariantTypeId::Double => Some(DataTypeId::Double),
        VariantTypeId::String => Some(DataTypeId::String),
        VariantTypeId::DateTime => Some(DataTypeId::DateTime),
        VariantTypeId::Guid => Some(DataTypeId::Guid),
        VariantTypeId::ByteString => Some(DataTypeId::ByteString),
        VariantTypeId::XmlElement => Some(DataTypeId::XmlElement),
        VariantTypeId::NodeId => Some(DataTypeId::NodeId),
        VariantTypeId::ExpandedNodeId => Some(DataTypeId::ExpandedNodeId),
        VariantTypeId::StatusCode => Some(DataTypeId::StatusCode),
        VariantTypeId::QualifiedName => Some(DataTypeId::QualifiedName),
        VariantTypeId::LocalizedText => Some(DataTypeId::LocalizedText),
        VariantTypeId::Variant => Some(DataTypeId::BaseDataType),
        VariantTypeId::DataValue => Some(DataTypeId::DataValue),
        VariantTypeId::DiagnosticInfo => Some(DataTypeId::DiagnosticInfo),
        _ => None,
    }
}
pub open spec fn node_of(d: Option<DataTypeId>) -> Option<NodeId> {
    match d { Some(d) => Some(NodeId { namespace: 0, dt: d }), None => None }
}
pub open spec fn all_of_type(values: Seq<Variant>, t: VariantTypeId) -> bool {
    forall|i: int| 0 <= i < values.len() ==> type_of(#[trigger] values[i]) == t
}
// what Array::new accepts: a scalar element type and only elements of that type
pub open spec fn valid_array(t: VariantTypeId, values: Seq<Variant>) -> bool {
    t != VariantTypeId::Array && t != VariantTypeId::Empty && all_of_type(values, t)
}
// the invariant of array values (established by Array::new / new_multi, the only constructors used by decoding and From)
pub open spec fn wf(v: Variant) -> bool {
    v is Array ==> valid_array(v->Array_0.value_type, v->Array_0.values@)
}
// ranges as NumericRange::from_str produces them
pub open spec fn range_ok(r: NumericRange) -> bool {
    match r { NumericRange::Range(min, max) => min <= max, _ => true }
}
pub open spec fn is_array_of(v: Variant, t: VariantTypeId, values: Seq<Variant>) -> bool {
    v is Array && v->Array_0.value_type == t && v->Array_0.values@ =~= values && v->Array_0.dimensions is None
}
pub open spec fn vals(v: Variant) -> Seq<Variant> { v->Array_0.values@ }
// the element type the range functions compare: data type of the first element
pub open spec fn array_dt(v: Variant) -> Option<DataTypeId> {
    if v is Array && v->Array_0.values@.len() > 0 { dt_of(type_of(v->Array_0.values@[0])) } else { None }
}
// index range write: what the array looks like afterwards (elements copied until the range, the array or the source ends)
pub open spec fn written(a0: Seq<Variant>, o: Seq<Variant>, range: NumericRange, a1: Seq<Variant>) -> bool {
    &&& a1.len() == a0.len()
    &&& match range {
        NumericRange::Index(idx) => idx < a0.len() && o.len() > 0 && a1 =~= a0.update(idx as int, o[0]),
        NumericRange::Range(min, max) => min < a0.len() && (forall|i: int| 0 <= i < a0.len() ==>
            #[trigger] a1[i] == (if min <= i <= max && i - min < o.len() { o[i - min] } else { a0[i] })),
        _ => false,
    }
}
// index range read: the elements a read returns
pub open spec fn read_of(a: Seq<Variant>, range: NumericRange) -> Seq<Variant> {
    match range {
        NumericRange::Index(idx) => seq![a[idx as int]],
        NumericRange::Range(min, max) => a.subrange(min as int, (if max >= a.len() { a.len() - 1 } else { max as int }) + 1),
        _ => a,
    }
}
'''

SPEC = {
    'type_id': ('r', '''        ensures r == type_of(*self),'''),
    'scalar_data_type': ('r', '''        ensures r == node_of(dt_of(type_of(*self))),'''),
    'array_data_type': ('r', '''        ensures r == node_of(array_dt(*self)),'''),
    'eq_array_type': ('r', '''        ensures r == (array_dt(*self) is Some && array_dt(*self) == array_dt(*other)),'''),
    'validate_array_type_to_values': ('r', '''        ensures r == valid_array(value_type, values@),'''),
    'new': ('r', '''        ensures (r is Ok) == valid_array(value_type, values@),
            r is Ok ==> r->Ok_0.value_type == value_type && r->Ok_0.values@ == values@ && r->Ok_0.dimensions is None,'''),
    'from_array': ('r', '''        ensures r is Array && *r->Array_0 == v,'''),
    'from_type_values': ('r', '''        requires valid_array(v.0, v.1@),      // otherwise the unwrap panics
        ensures is_array_of(r, v.0, v.1@),'''),
    'set_range_of': ('r', '''        requires range_ok(range), wf(*old(self)), wf(*other),
        ensures
            // a rejected write leaves the value unchanged
            r is Err ==> *final(self) == *old(self),
            // accepted only for two non-empty arrays of the same element data type and an index / range that starts inside
            // (further refusals are not against the property: "a rejected write leaves the value unchanged")
            (r is Ok) ==> (array_dt(*old(self)) is Some && array_dt(*old(self)) == array_dt(*other) && match range {
                NumericRange::Index(idx) => idx < vals(*old(self)).len(),
                NumericRange::Range(min, max) => min < vals(*old(self)).len(),
                _ => false,
            }),
            // an accepted write changes exactly the addressed elements, nothing else, and keeps the array well typed
            r is Ok ==> *final(self) is Array && *old(self) is Array && *other is Array,
            r is Ok ==> (*final(self))->Array_0.value_type == (*old(self))->Array_0.value_type
                && (*final(self))->Array_0.dimensions == (*old(self))->Array_0.dimensions,
            r is Ok ==> written(vals(*old(self)), vals(*other), range, vals(*final(self))),
            r is Ok ==> wf(*final(self)),'''),
    'range_of': ('r', '''        requires range_ok(range), wf(*self),
        ensures match range {
            NumericRange::None => r is Ok && r->Ok_0 == *self,
            NumericRange::MultipleRanges(_) => r is Err      /* which status is not part of the property */,
            _ => match *self {
                Variant::Array(a) => ({
                    let start = match range { NumericRange::Index(i) => i, NumericRange::Range(min, _) => min, _ => 0 };
                    if start < a.values@.len() {
                        // exactly the addressed elements, as a well-typed array of the same element type
                        r is Ok && is_array_of(r->Ok_0, a.value_type, read_of(a.values@, range)) && wf(r->Ok_0)
                    } else {
                        r is Err      /* which status is not part of the property */
                    }
                }),
                Variant::String(_) | Variant::ByteString(_) => true,   // Variant::substring (units c32_range / Kani)
                _ => r is Err      /* which status is not part of the property */,
            },
        },'''),
    'set_value_range': ('r', '''        requires range_ok(index_range), wf(value),
            old(self).value.value is Some ==> wf(old(self).value.value->Some_0),
        ensures
            // a rejected write leaves value, status and timestamps unchanged
            r is Err ==> *final(self) == *old(self),
            r is Ok ==> ({
                let v0 = old(self).value.value;
                let v1 = final(self).value.value;
                &&& v0 is Some && v1 is Some && v0->Some_0 is Array && v1->Some_0 is Array && value is Array
                &&& written(vals(v0->Some_0), vals(value), index_range, vals(v1->Some_0))
                &&& wf(v1->Some_0)
                &&& final(self).value.status == Some(status_code)
                &&& final(self).value.server_timestamp == Some(*server_timestamp)
                &&& final(self).value.source_timestamp == Some(*source_timestamp)
            }),'''),
}

LEMMAS = '''
// distinct built-in types have distinct DataType nodes: comparing data types compares element types
proof fn lemma_dt_injective(a: VariantTypeId, b: VariantTypeId)
    requires dt_of(a) is Some, dt_of(a) == dt_of(b),
    ensures a == b,
{
}
// C32 read-after-write for index ranges: after an accepted write of `o` into Range(min, max), reading Range(min, max)
// returns the written elements (as many as the range, the array and the source allow)
proof fn lemma_read_after_range_write(a0: Seq<Variant>, o: Seq<Variant>, min: u32, max: u32, a1: Seq<Variant>)
    requires min <= max, written(a0, o, NumericRange::Range(min, max), a1),
    ensures ({
        let got = read_of(a1, NumericRange::Range(min, max));
        &&& got.len() == (if max >= a0.len() { a0.len() - 1 - min + 1 } else { max - min + 1 })
        &&& forall|k: int| 0 <= k < got.len() && k < o.len() ==> got[k] == o[k]
        &&& forall|k: int| 0 <= k < got.len() && k >= o.len() ==> got[k] == a0[min + k]
    }),
{
}
proof fn lemma_read_after_index_write(a0: Seq<Variant>, o: Seq<Variant>, idx: u32, a1: Seq<Variant>)
    requires written(a0, o, NumericRange::Index(idx), a1),
    ensures read_of(a1, NumericRange::Index(idx)) == seq![o[0]],
        forall|i: int| 0 <= i < a0.len() && i != idx ==> a1[i] == a0[i],
{
}
'''

CANARY = '''
proof fn canary_array(v: Variant, o: Variant)
    requires wf(v), wf(o), array_dt(v) is Some, array_dt(v) == array_dt(o), vals(v).len() == 3,
    ensures false,
{}
'''


def slice_enum(t, used_text):
    """D3 (enum): keep only the variants whose names are mentioned as `Enum::Name` in the extracted functions."""
    i = t.index('{')
    head, body = t[:i + 1], t[i + 1:t.rindex('}')]
    name = re.search(r'enum (\w+)', head).group(1)
    used = set(re.findall(r'\b' + name + r'::(\w+)', used_text))
    out = [ln for ln in body.split('\n') if re.match(r'\s*(\w+)\s*(=|,)', ln) and re.match(r'\s*(\w+)', ln).group(1) in used]
    missing = used - set(re.match(r'\s*(\w+)', ln).group(1) for ln in out)
    if missing or not out:
        raise Undecided('lost anchor: enum variants %s' % sorted(missing))
    return head + '\n' + '\n'.join(out) + '\n}'


def rehome_from(src, impl_re, new_name):
    """D8: `impl From<T> for X { fn from(v: T) -> Self {..} }` becomes the inherent function X::<new_name>"""
    t = clean_fn(src.impl_fn(impl_re, 'from'))
    t2 = re.sub(r'^(\s*)fn from\(', r'\1pub fn %s(' % new_name, t, count=1, flags=re.M)
    if t2 == t:
        raise Undecided('lost anchor: fn from in %s' % impl_re)
    return t2


def build(manifest):
    va = Src('types/variant.rs', manifest)
    ar = Src('types/array.rs', manifest)
    vt = Src('types/variant_type_id.rs', manifest)
    nr = Src('types/numeric_range.rs', manifest)
    dv = Src('types/data_value.rs', manifest)
    ni = Src('types/node_ids.rs', manifest)
    vb = Src('server/address_space/variable.rs', manifest)
    f = {}
    for n in ['type_id', 'scalar_data_type', 'array_data_type', 'eq_array_type', 'set_range_of', 'range_of']:
        f[n] = norm_vis(clean_fn(va.impl_fn(r'^impl Variant \{', n)))
    f['from_array'] = rehome_from(va, r'^impl From<Array> for Variant \{', 'from_array')
    g = rehome_from(va, r'^impl From<\(VariantTypeId, Vec<Variant>\)> for Variant \{', 'from_type_values')
    # the conversion of the Array into a Variant inside it is the From<Array> impl above
    g2 = g.replace('Variant::from(value)', 'Variant::from_array(value)')
    if g2 == g:
        raise Undecided('lost anchor: Variant::from(value) in From<(VariantTypeId, Vec<Variant>)>')
    f['from_type_values'] = g2
    # call sites of the tuple conversion in range_of
    r2 = re.sub(r'\bVariant::from\(\(', 'Variant::from_type_values((', f['range_of'])
    if r2 == f['range_of']:
        raise Undecided('lost anchor: Variant::from((type, values)) in range_of')
    f['range_of'] = r2
    f['validate_array_type_to_values'] = norm_vis(clean_fn(ar.impl_fn(r'^impl Array \{', 'validate_array_type_to_values')))
    # D13: the parameter `values: V where V: Into<Vec<Variant>>` is instantiated at Vec<Variant>, for which
    # `values.into()` is the identity
    n = norm_vis(clean_fn(ar.impl_fn(r'^impl Array \{', 'new')))
    n2 = re.sub(r'pub fn new<V>\(value_type: VariantTypeId, values: V\) -> Result<Array, StatusCode>\s*where\s*V: Into<Vec<Variant>>,\s*\{',
                'pub fn new(value_type: VariantTypeId, values: Vec<Variant>) -> Result<Array, StatusCode>\n    {', n)
    n3 = re.sub(r'\n\s*let values = values\.into\(\);\n', '\n', n2)
    if n2 == n or n3 == n2:
        raise Undecided('lost anchor: Array::new<V: Into<Vec<Variant>>>')
    f['new'] = n3
    f['set_value_range'] = norm_vis(clean_fn(vb.impl_fn(r'^impl Variable \{', 'set_value_range')))
    for k in f:
        t = f[k]
        t = re.sub(r'^(\s*)fn ', r'\1pub fn ', t, count=1) if not re.match(r'\s*pub ', t) else t
        f[k] = splice_contract(t, SPEC[k][1], SPEC[k][0])
    s = f['set_range_of']
    s = splice_at(s, r'^\s*let mut idx = min;', '                            let ghost v0 = values@;', before=True)
    s = splice_loop(s, 0, '''                                invariant values@.len() == v0.len(), min <= idx <= v0.len(), idx <= max + 1, idx - min <= other_values@.len(),
                                    forall|i: int| 0 <= i < v0.len() ==> #[trigger] values@[i] == (if min <= i < idx { other_values@[i - min] } else { v0[i] }),
                                    all_of_type(other_values@, other_array.value_type),
                                decreases values@.len() - idx,''')
    # ghost hint: equal element data types mean equal element types (lemma_dt_injective), needed for well-typedness afterwards
    s = splice_at(s, r'^\s*let other_values = &other_array\.values;', '''        proof {
            lemma_dt_injective(type_of(vals(*self)[0]), type_of(vals(*other)[0]));
            assert(type_of(vals(*self)[0]) == (*self)->Array_0.value_type);
            assert(type_of(vals(*other)[0]) == (*other)->Array_0.value_type);
        }''', before=False)
    f['set_range_of'] = s
    used = '\n'.join(f.values()) + ENV
    types = '\n'.join([
        va.enum('Variant', derive=None).replace('    #[default]\n', ''),
        ar.struct('Array'),
        vt.enum('VariantTypeId'),
        nr.enum('NumericRange', derive=None),
        dv.struct('DataValue'),
        slice_enum(ni.enum('DataTypeId'), used),
        vb.struct('Variable', keep_fields=['value']),
    ])
    a = Asm()
    a.add('use vstd::prelude::*;\nverus! {\nglobal size_of usize == 8;\n', 'prelude', 'env')
    a.add(norm_vis(types), 'types', 'env')
    a.add(status_code_struct(manifest), 'status codes', 'env')      # every status code of the real file (D14)
    a.add(ENV, 'env', 'env')
    a.add('impl Array {')
    a.add(f['validate_array_type_to_values'], 'Array::validate_array_type_to_values', 'fn')
    a.add(f['new'], 'Array::new', 'fn')
    a.add('}\nimpl Variant {')
    for n in ['type_id', 'scalar_data_type', 'array_data_type', 'eq_array_type', 'from_array', 'from_type_values', 'set_range_of', 'range_of']:
        a.add(f[n], n, 'fn')
    a.add('}\nimpl Variable {')
    a.add(f['set_value_range'], 'Variable::set_value_range', 'fn')
    a.add('}')
    add_proof_fns(a, LEMMAS, 'lemma')
    add_proof_fns(a, CANARY, 'canary')
    a.add('}\nfn main() {}\n')
    return dict(asm=a, pid=PID, short=SHORT, clauses={k: v[1] for k, v in SPEC.items()}, twins={}, witness={},
                assumptions=['C32: array values are well typed (every element has the array\'s value_type, which is a scalar type): '
                             'established by Array::new / new_multi (under contract here) for every array built by decoding or From; '
                             'Array\'s fields are public, an array assembled by hand around these constructors is outside the contract',
                             'C32: index ranges are as NumericRange::from_str produces them (Range(min, max) with min <= max)',
                             'C32: values_are_of_type (iter().any) and #[derive(Clone)] for Variant behave as specified; '
                             'Variant::substring is delegated (ByteString::substring in unit c32_range, UAString::substring under Kani)',
                             'C32: Variable::value / set_value reach these functions through value getters/setters behind Arc<Mutex>, '
                             'not under contract; access levels are unit c32_access'])
