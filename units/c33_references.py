"""C33 (crash freedom of the functions under contract) — the unit c28_references read for C33: only the obligations whose failure means a
crash are counted here (a precondition of a panicking operation — unwrap, index, slice, an environment function that panics —,
arithmetic overflow, a reachable panic!, non-termination of a recursion); what the functions compute is the business of the
unit's own property."""
from c28_references import build as _build

PANIC_KINDS = r'precondition not (satisfied|met)|index in bounds|overflow|underflow|division|unreachable|panic|decreases|terminat|recursion'


def build(manifest):
    d = _build(manifest)
    d['pid'] = 'C33'
    d['short'] = 'references'
    d['only_kinds'] = PANIC_KINDS
    return d
