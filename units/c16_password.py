"""C16 — Verus unit: crypto::user_identity::legacy_password_decrypt (verbatim): total on every secret / nonce /
decrypted content, and Ok only if the decrypted block is  len32 | password | server_nonce  (nonce binding).
RSA (OpenSSL) is an uninterpreted function."""
from extract import *

PID = 'C16'
SHORT = 'password'

ENV = '''
#[verifier::external_type_specification]
#[verifier::external_body]
pub struct ExFromUtf8Error(std::string::FromUtf8Error);
// the UTF-8 bytes of a String (vstd views a String as characters; only the byte image matters here)
pub uninterp spec fn spec_utf8_bytes(s: String) -> Seq<u8>;
pub assume_specification [String::from_utf8] (v: Vec<u8>) -> (r: Result<String, std::string::FromUtf8Error>)
    ensures r is Ok ==> spec_utf8_bytes(r->Ok_0) == v@;
pub assume_specification<T: Clone> [<[T]>::to_vec] (s: &[T]) -> (r: Vec<T>) ensures r@ == s@;
pub struct PKeyError;
pub struct ByteString { pub value: Option<Vec<u8>> }
impl ByteString {
    pub fn is_null(&self) -> (r: bool) ensures r == (self.value is None) { self.value.is_none() }
}
pub struct PrivateKey { pub x: u8 }
// RSA decryption (OpenSSL): a deterministic function of key, cipher text and padding scheme giving the
// plaintext buffer and its length; never longer than the destination
pub uninterp spec fn spec_private_decrypt(key: PrivateKey, src: Seq<u8>, padding: RsaPadding) -> (Seq<u8>, nat);
impl PrivateKey {
    #[verifier::external_body]
    pub fn private_decrypt(&self, src: &[u8], dst: &mut [u8], padding: RsaPadding) -> (r: Result<usize, PKeyError>)
        ensures final(dst)@.len() == old(dst)@.len(),
            r is Ok ==> r->Ok_0 <= old(dst)@.len() && (final(dst)@, r->Ok_0 as nat) == spec_private_decrypt(*self, src@, padding),
    { unimplemented!() }
}
// std::io::Cursor<Vec<u8>> as used here: created over the buffer, read_u32 at position 0, into_inner
pub struct Cursor { pub buf: Vec<u8>, pub pos: usize }
impl Cursor {
    pub fn new(buf: Vec<u8>) -> (r: Cursor) ensures r.buf@ == buf@, r.pos == 0 { Cursor { buf, pos: 0 } }
    pub fn into_inner(self) -> (r: Vec<u8>) ensures r@ == self.buf@ { self.buf }
}
// little-endian u32 of the first four bytes
pub open spec fn spec_le32(b: Seq<u8>) -> nat {
    (b[0] as nat) + (b[1] as nat) * 0x100 + (b[2] as nat) * 0x1_0000 + (b[3] as nat) * 0x100_0000
}
// types::encoding::read_u32 (generic over Read): reads 4 bytes little endian or fails; re-checked by Kani (c16::c16_env_read_u32)
#[verifier::external_body]
pub fn read_u32(stream: &mut Cursor) -> (r: Result<u32, StatusCode>)
    ensures final(stream).buf@ == old(stream).buf@,
        r is Ok ==> old(stream).buf@.len() >= old(stream).pos + 4 && (old(stream).pos == 0 ==> r->Ok_0 as nat == spec_le32(old(stream).buf@)),
{ unimplemented!() }
#[verifier::external_body]
pub fn slices_differ(a: &[u8], b: &[u8]) -> (r: bool) ensures r == (a@ != b@) { unimplemented!() }

// the framing of an encrypted password: 4-byte little-endian length of (password + nonce), password, nonce
pub open spec fn is_frame(plain: Seq<u8>, n: nat, password: Seq<u8>, nonce: Seq<u8>) -> bool {
    &&& n == 4 + password.len() + nonce.len()
    &&& n <= plain.len()
    &&& spec_le32(plain) == password.len() + nonce.len()
    &&& plain.subrange(4, 4 + password.len() as int) == password
    &&& plain.subrange(4 + password.len() as int, n as int) == nonce
}
'''

SPEC = {
    'legacy_password_decrypt': ('r', '''    requires server_nonce@.len() <= 0x7fff_ffff,
        secret.value is Some ==> secret.value->Some_0@.len() <= 0x7fff_ffff,
    ensures
        // accepted only when the decrypted block is exactly  len32 | password | server_nonce
        r is Ok ==> secret.value is Some && ({
            let (plain, n) = spec_private_decrypt(*server_key, secret.value->Some_0@, padding);
            is_frame(plain, n, spec_utf8_bytes(r->Ok_0), server_nonce@)
        }),
        secret.value is None ==> r is Err,'''),
}

LEMMAS = '''
// nonce binding: one decrypted block cannot be a frame for two different nonces of the same length, so a token
// encrypted for an earlier nonce is rejected under the current one (given RSA decryption is a function)
proof fn lemma_frame_binds_nonce(plain: Seq<u8>, n: nat, p1: Seq<u8>, nonce1: Seq<u8>, p2: Seq<u8>, nonce2: Seq<u8>)
    requires is_frame(plain, n, p1, nonce1), is_frame(plain, n, p2, nonce2), nonce1.len() == nonce2.len(),
    ensures nonce1 == nonce2, p1 == p2,
{
    assert(p1.len() == p2.len());
    assert(nonce1 =~= nonce2);
    assert(p1 =~= p2);
}
'''

CANARY = '''
proof fn canary_frame(plain: Seq<u8>, p: Seq<u8>, nonce: Seq<u8>)
    requires is_frame(plain, (4 + p.len() + nonce.len()) as nat, p, nonce), p.len() == 3, nonce.len() == 32,
    ensures false,
{}
'''


def build(manifest):
    ui = Src('crypto/user_identity.rs', manifest)
    pk = Src('crypto/pkey.rs', manifest)
    f = clean_fn(ui.free_fn('legacy_password_decrypt'))
    # D9, applied where the pattern occurs (a different way of comparing is left to Verus as written)
    f = f.replace('if nonce != server_nonce {', 'if slices_differ(nonce, server_nonce) {')
    f = splice_contract(f, SPEC['legacy_password_decrypt'][1], 'r')
    a = Asm()
    a.add('use vstd::prelude::*;\nverus! {\nglobal size_of usize == 8;\n', 'prelude', 'env')
    a.add(norm_vis(pk.enum('RsaPadding')), 'types', 'env')
    a.add(status_code_struct(manifest), 'status codes', 'env')      # every status code of the real file (D14)
    a.add(ENV, 'env', 'env')
    a.add(f, 'legacy_password_decrypt', 'fn')
    add_proof_fns(a, LEMMAS, 'lemma')
    add_proof_fns(a, CANARY, 'canary')
    a.add('}\nfn main() {}\n')
    return dict(asm=a, pid=PID, short=SHORT, clauses={k: v[1] for k, v in SPEC.items()}, twins={}, witness={},
                assumptions=['C16: RSA private_decrypt (OpenSSL) is a deterministic function that inverts public_encrypt for the matching key '
                             '(round trip assumed, not proved); legacy_password_encrypt writes len32|password|nonce through std::io::Cursor '
                             '(generic Write, not extracted)'])
