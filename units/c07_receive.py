"""C07 (receive half) — the receive path of c09_receive with the padding-removal postconditions."""
from c09_receive import build_variant
def build(manifest):
    return build_variant(manifest, 'pad', 'C07')
