"""C13 — Verus unit: hash::p_sha (RFC 5246 P_hash) with its loop proved, SecurityPolicy::{prf,
derived_signature_key_size, make_secure_channel_keys}, SecureChannel::derive_keys; HMAC is an uninterpreted
function (assumed contract of OpenSSL)."""
from extract import *

PID = 'C13'
SHORT = 'keys'

HEAD = '''#![feature(allocator_api)]
use vstd::prelude::*;
verus! {
global size_of usize == 8;
pub mod ax { use vstd::prelude::*; verus! {
pub uninterp spec fn spec_iter_seq<T, I>(i: I) -> Seq<T>;
// iterating `&Vec<T>` yields the elements of the vector in order (std semantics; vstd has no spec for Extend<&T>)
#[verifier::external_body]
pub broadcast proof fn axiom_iter_seq_vec_ref<T>(v: &Vec<T>)
    ensures #[trigger] spec_iter_seq::<T, &Vec<T>>(v) == v@
{}
} }
pub assume_specification<'a, T, A, I> [<std::vec::Vec<T, A> as std::iter::Extend<&'a T>>::extend] (v: &mut std::vec::Vec<T, A>, iter: I)
    where A: std::alloc::Allocator, I: std::iter::IntoIterator<Item = &'a T>, T: std::marker::Copy + 'a,
    ensures final(v)@ == old(v)@ + ax::spec_iter_seq::<T, I>(iter);
pub assume_specification<T: Clone> [<[T]>::to_vec] (s: &[T]) -> (r: Vec<T>) ensures r@ == s@;
// ---- cryptography: HMAC is uninterpreted; its only assumed properties are determinism (it is a function)
// ---- and a fixed positive output length per digest
pub mod openssl_hash { use vstd::prelude::*; verus! {
    #[derive(Clone, Copy)]
    pub struct MessageDigest { pub id: u8 }
    impl MessageDigest {
        pub fn sha1() -> (r: MessageDigest) ensures r.id == 1 { MessageDigest { id: 1 } }
        pub fn sha256() -> (r: MessageDigest) ensures r.id == 2 { MessageDigest { id: 2 } }
    }
} }
pub use openssl_hash::MessageDigest;
pub mod axh { use vstd::prelude::*; use super::MessageDigest; verus! {
pub uninterp spec fn spec_hmac(d: MessageDigest, key: Seq<u8>, data: Seq<u8>) -> Seq<u8>;
pub uninterp spec fn spec_digest_len(d: MessageDigest) -> nat;
#[verifier::external_body]
pub broadcast proof fn axiom_hmac_len(d: MessageDigest, key: Seq<u8>, data: Seq<u8>)
    ensures (#[trigger] spec_hmac(d, key, data)).len() == spec_digest_len(d), spec_digest_len(d) > 0
{}
} }
pub use axh::{spec_hmac, spec_digest_len};
broadcast use {ax::axiom_iter_seq_vec_ref, axh::axiom_hmac_len};

// ---- RFC 5246 section 5, written as spec functions
// A(0) = seed, A(i) = HMAC(secret, A(i-1))
pub open spec fn spec_a(d: MessageDigest, secret: Seq<u8>, seed: Seq<u8>, n: nat) -> Seq<u8>
    decreases n
{ if n == 0 { seed } else { spec_hmac(d, secret, spec_a(d, secret, seed, (n - 1) as nat)) } }
// P_hash = HMAC(secret, A(1) + seed) + HMAC(secret, A(2) + seed) + ...   (first n blocks)
pub open spec fn spec_p_hash(d: MessageDigest, secret: Seq<u8>, seed: Seq<u8>, n: nat) -> Seq<u8>
    decreases n
{ if n == 0 { Seq::empty() } else { spec_p_hash(d, secret, seed, (n - 1) as nat) + spec_hmac(d, secret, spec_a(d, secret, seed, n) + seed) } }
// the first `len` bytes of P_hash (len blocks always contain at least len bytes)
pub open spec fn spec_p_sha(d: MessageDigest, secret: Seq<u8>, seed: Seq<u8>, len: nat) -> Seq<u8> {
    spec_p_hash(d, secret, seed, len).subrange(0, len as int)
}
// Part 6 6.7.5 PRF(secret, seed, length, offset)
pub open spec fn spec_prf(d: MessageDigest, secret: Seq<u8>, seed: Seq<u8>, length: nat, offset: nat) -> Seq<u8> {
    spec_p_sha(d, secret, seed, offset + length).subrange(offset as int, (offset + length) as int)
}
// Part 7 profiles: digest of the PRF and (signing key, encryption key, IV) lengths in bytes
pub open spec fn spec_digest(p: SecurityPolicy) -> MessageDigest {
    match p {
        SecurityPolicy::Basic128Rsa15 | SecurityPolicy::Basic256 => MessageDigest { id: 1 },
        _ => MessageDigest { id: 2 },
    }
}
pub open spec fn spec_key_lengths(p: SecurityPolicy) -> (nat, nat, nat) {
    match p {
        SecurityPolicy::Basic128Rsa15 => (16, 16, 16),
        SecurityPolicy::Basic256 => (24, 32, 16),
        SecurityPolicy::Basic256Sha256 => (32, 32, 16),
        SecurityPolicy::Aes128Sha256RsaOaep => (32, 16, 16),
        SecurityPolicy::Aes256Sha256RsaPss => (32, 32, 16),
        _ => (0, 0, 0),
    }
}
pub open spec fn supported(p: SecurityPolicy) -> bool {
    p == SecurityPolicy::Basic128Rsa15 || p == SecurityPolicy::Basic256 || p == SecurityPolicy::Basic256Sha256
    || p == SecurityPolicy::Aes128Sha256RsaOaep || p == SecurityPolicy::Aes256Sha256RsaPss
}
// the key triple Part 6 table 33 prescribes for (secret, seed)
pub open spec fn spec_keys(p: SecurityPolicy, secret: Seq<u8>, seed: Seq<u8>) -> (Seq<u8>, Seq<u8>, Seq<u8>) {
    let (s, e, b) = spec_key_lengths(p);
    let d = spec_digest(p);
    (spec_prf(d, secret, seed, s, 0), spec_prf(d, secret, seed, e, s), spec_prf(d, secret, seed, b, s + e))
}
pub open spec fn keys_view(k: (Vec<u8>, AesKey, Vec<u8>)) -> (Seq<u8>, Seq<u8>, Seq<u8>) { (k.0@, k.1.value@, k.2@) }

pub proof fn lemma_p_hash_len(d: MessageDigest, secret: Seq<u8>, seed: Seq<u8>, n: nat)
    ensures spec_p_hash(d, secret, seed, n).len() == n * spec_digest_len(d),
    decreases n
{
    if n > 0 {
        lemma_p_hash_len(d, secret, seed, (n - 1) as nat);
        assert(n * spec_digest_len(d) == (n - 1) * spec_digest_len(d) + spec_digest_len(d)) by (nonlinear_arith);
    } else {
        assert(0 * spec_digest_len(d) == 0) by (nonlinear_arith);
    }
}
pub proof fn lemma_p_hash_prefix(d: MessageDigest, secret: Seq<u8>, seed: Seq<u8>, n: nat, m: nat)
    requires n <= m,
    ensures spec_p_hash(d, secret, seed, n).len() <= spec_p_hash(d, secret, seed, m).len(),
        spec_p_hash(d, secret, seed, m).subrange(0, spec_p_hash(d, secret, seed, n).len() as int) == spec_p_hash(d, secret, seed, n),
    decreases m
{
    if n == m {
        assert(spec_p_hash(d, secret, seed, m).subrange(0, spec_p_hash(d, secret, seed, m).len() as int) =~= spec_p_hash(d, secret, seed, m));
    } else {
        lemma_p_hash_prefix(d, secret, seed, n, (m - 1) as nat);
        let pm1 = spec_p_hash(d, secret, seed, (m - 1) as nat);
        let pn = spec_p_hash(d, secret, seed, n);
        assert(spec_p_hash(d, secret, seed, m).subrange(0, pn.len() as int) =~= pm1.subrange(0, pn.len() as int));
    }
}
// a PRF run for a longer total, cut at [a, b), is the PRF run for length b - a at offset a (the P_hash stream does not depend on
// how much of it is asked for) — lets the proof go through whether the three keys come from three runs or from one run cut up
pub proof fn lemma_p_sha_prefix(d: MessageDigest, secret: Seq<u8>, seed: Seq<u8>, n: nat, m: nat)
    requires n <= m,
    ensures spec_p_sha(d, secret, seed, m).subrange(0, n as int) == spec_p_sha(d, secret, seed, n),
{
    lemma_p_hash_len(d, secret, seed, n);
    lemma_p_hash_len(d, secret, seed, m);
    lemma_p_hash_prefix(d, secret, seed, n, m);
    assert(n * spec_digest_len(d) >= n) by (nonlinear_arith) requires spec_digest_len(d) >= 1;
    assert(m * spec_digest_len(d) >= m) by (nonlinear_arith) requires spec_digest_len(d) >= 1;
    let pn = spec_p_hash(d, secret, seed, n);
    let pm = spec_p_hash(d, secret, seed, m);
    assert(pn == pm.subrange(0, pn.len() as int));
    assert(spec_p_sha(d, secret, seed, m).subrange(0, n as int) =~= spec_p_sha(d, secret, seed, n));
}
pub broadcast proof fn lemma_prf_split(d: MessageDigest, secret: Seq<u8>, seed: Seq<u8>, total: nat, a: int, b: int)
    requires 0 <= a <= b <= total,
    ensures #[trigger] spec_prf(d, secret, seed, total, 0).subrange(a, b) == spec_prf(d, secret, seed, (b - a) as nat, a as nat),
{
    lemma_p_sha_prefix(d, secret, seed, b as nat, total);
    lemma_p_hash_len(d, secret, seed, total);
    assert(total * spec_digest_len(d) >= total) by (nonlinear_arith) requires spec_digest_len(d) >= 1;
    assert(spec_prf(d, secret, seed, total, 0).subrange(a, b) =~= spec_prf(d, secret, seed, (b - a) as nat, a as nat));
}
'''

SPEC = {
    'p_sha': ('result', '''    requires seed@.len() * 2 <= usize::MAX,
    ensures result@.len() == length,
        result@ == spec_p_sha(message_digest, secret@, seed@, length as nat),'''),
    'derived_signature_key_size': ('r', '''        requires supported(*self),
        ensures r == spec_key_lengths(*self).0,'''),
    'prf': ('r', '''        requires supported(*self), offset + length <= usize::MAX, seed@.len() * 2 <= usize::MAX,
        ensures r@ == spec_prf(spec_digest(*self), secret@, seed@, length as nat, offset as nat),
            r@.len() == length,'''),
    'make_secure_channel_keys': ('r', '''        requires supported(*self), seed@.len() * 2 <= usize::MAX,
        ensures keys_view(r) == spec_keys(*self, secret@, seed@),
            r.1.security_policy == *self,
            r.0@.len() == spec_key_lengths(*self).0, r.1.value@.len() == spec_key_lengths(*self).1, r.2@.len() == spec_key_lengths(*self).2,'''),
    'derive_keys': (None, '''        requires supported(old(self).security_policy),
            old(self).local_nonce@.len() * 2 <= usize::MAX, old(self).remote_nonce@.len() * 2 <= usize::MAX,
        ensures
            final(self).security_policy == old(self).security_policy,
            final(self).local_nonce == old(self).local_nonce, final(self).remote_nonce == old(self).remote_nonce,
            // Part 6 table 33: the keys that secure what this side sends use secret = the other side's nonce, seed = own nonce
            final(self).local_keys is Some && keys_view(final(self).local_keys->Some_0) == spec_keys(old(self).security_policy, old(self).remote_nonce@, old(self).local_nonce@),
            // and the keys that verify what the peer sends are the peer's sending keys
            final(self).remote_keys is Some && keys_view(final(self).remote_keys->Some_0) == spec_keys(old(self).security_policy, old(self).local_nonce@, old(self).remote_nonce@),'''),
}

LEMMAS = '''
// C13 "the keys one side uses to secure messages are exactly the keys the other side uses to verify them":
// two channels with the same policy and swapped nonces (what OpenSecureChannel establishes), after derive_keys
proof fn lemma_both_ends_agree(a: SecureChannel, b: SecureChannel)
    requires
        a.security_policy == b.security_policy,
        a.local_nonce@ == b.remote_nonce@, a.remote_nonce@ == b.local_nonce@,
        a.local_keys is Some, a.remote_keys is Some, b.local_keys is Some, b.remote_keys is Some,
        keys_view(a.local_keys->Some_0) == spec_keys(a.security_policy, a.remote_nonce@, a.local_nonce@),
        keys_view(a.remote_keys->Some_0) == spec_keys(a.security_policy, a.local_nonce@, a.remote_nonce@),
        keys_view(b.local_keys->Some_0) == spec_keys(b.security_policy, b.remote_nonce@, b.local_nonce@),
        keys_view(b.remote_keys->Some_0) == spec_keys(b.security_policy, b.local_nonce@, b.remote_nonce@),
    ensures
        keys_view(a.local_keys->Some_0) == keys_view(b.remote_keys->Some_0),
        keys_view(a.remote_keys->Some_0) == keys_view(b.local_keys->Some_0),
{
}
// the three keys are consecutive, non-overlapping slices of one P_hash stream (signing | encryption | iv)
proof fn lemma_keys_are_consecutive_slices(p: SecurityPolicy, secret: Seq<u8>, seed: Seq<u8>)
    requires supported(p),
    ensures ({
        let (s, e, b) = spec_key_lengths(p);
        let k = spec_keys(p, secret, seed);
        let stream = spec_p_hash(spec_digest(p), secret, seed, s + e + b);
        &&& stream.len() >= s + e + b
        &&& k.0 == stream.subrange(0, s as int)
        &&& k.1 == stream.subrange(s as int, (s + e) as int)
        &&& k.2 == stream.subrange((s + e) as int, (s + e + b) as int)
    }),
{
    let (s, e, b) = spec_key_lengths(p);
    let d = spec_digest(p);
    let stream = spec_p_hash(d, secret, seed, s + e + b);
    lemma_p_hash_len(d, secret, seed, s + e + b);
    lemma_p_hash_len(d, secret, seed, s);
    lemma_p_hash_len(d, secret, seed, s + e);
    assert((s + e + b) * spec_digest_len(d) >= s + e + b) by (nonlinear_arith) requires spec_digest_len(d) >= 1;
    assert(s * spec_digest_len(d) >= s) by (nonlinear_arith) requires spec_digest_len(d) >= 1;
    assert((s + e) * spec_digest_len(d) >= s + e) by (nonlinear_arith) requires spec_digest_len(d) >= 1;
    lemma_p_hash_prefix(d, secret, seed, s, s + e + b);
    lemma_p_hash_prefix(d, secret, seed, s + e, s + e + b);
    let k = spec_keys(p, secret, seed);
    let ps = spec_p_hash(d, secret, seed, s);
    let pse = spec_p_hash(d, secret, seed, s + e);
    assert(k.0 =~= stream.subrange(0, s as int)) by {
        assert(ps == stream.subrange(0, ps.len() as int));
    }
    assert(k.1 =~= stream.subrange(s as int, (s + e) as int)) by {
        assert(pse == stream.subrange(0, pse.len() as int));
    }
    assert(k.2 =~= stream.subrange((s + e) as int, (s + e + b) as int));
}
'''

CANARY = '''
proof fn canary_derive_keys_pre(c: SecureChannel)
    requires supported(c.security_policy), c.local_nonce@.len() == 32, c.remote_nonce@.len() == 32,
    ensures false,
{}
'''


def build(manifest):
    hs = Src('crypto/hash.rs', manifest)
    sp = Src('crypto/security_policy.rs', manifest)
    sc = Src('core/comms/secure_channel.rs', manifest)
    consts = []
    for m in ['basic_128_rsa_15', 'basic_256', 'basic_256_sha_256', 'aes_128_sha_256_rsa_oaep', 'aes_256_sha_256_rsa_pss']:
        t, _ = sp.item(r'^(pub )?mod ' + m + r' \{', name='mod ' + m)
        c = re.search(r'pub const DERIVED_SIGNATURE_KEY_LENGTH: usize = \d+;', t)
        if not c:
            raise Undecided('lost anchor: DERIVED_SIGNATURE_KEY_LENGTH in mod ' + m)
        consts.append('pub mod ' + m + ' { ' + c.group(0) + ' }')
    p_sha = clean_fn(hs.free_fn('p_sha'))
    p_sha = p_sha.replace('hash::MessageDigest', 'MessageDigest')      # D8-style path normalisation of the openssl alias
    p_sha = splice_contract(p_sha, SPEC['p_sha'][1], SPEC['p_sha'][0])
    p_sha = splice_at(p_sha, r'^\s*while result\.len\(\) < length', '    let ghost mut n: nat = 0;', before=True)
    p_sha = splice_loop(p_sha, 0, '''        invariant
            result@ == spec_p_hash(message_digest, secret@, seed@, n),
            a_last@ == spec_a(message_digest, secret@, seed@, n),
            result@.len() == n * spec_digest_len(message_digest),
            n == 0 || (n - 1) * spec_digest_len(message_digest) < length,
            spec_digest_len(message_digest) > 0 || n == 0,
        decreases (if result@.len() < length { length - result@.len() } else { 0 }),''')
    p_sha = splice_at(p_sha, r'^\s*result\.extend\(&bytes\);', '        let ghost r0 = result@;', before=True)
    p_sha = splice_at(p_sha, r'^\s*result\.extend\(&bytes\);',
                      '        proof { assert(result@ =~= r0 + bytes@); assert(bytes@.len() > 0); }', before=False)
    p_sha = splice_at(p_sha, r'^\s*a_last\.extend\(&a_next\);', '''        proof {
            let ghost d = spec_digest_len(message_digest);
            assert(hmac@ =~= a_next@ + seed@);
            assert(a_last@ =~= a_next@);
            assert(a_next@ == spec_a(message_digest, secret@, seed@, n + 1));
            assert(bytes@ == spec_hmac(message_digest, secret@, spec_a(message_digest, secret@, seed@, n + 1) + seed@));
            assert((n + 1) * d == n * d + d) by (nonlinear_arith);
            assert(n * d < length);
            n = n + 1;
            assert(result@.len() > r0.len());
        }''', before=False)
    p_sha = splice_at(p_sha, r'^\s*result\.truncate\(length\);', '''    proof {
        let ghost d = spec_digest_len(message_digest);
        // n blocks were produced, n*d >= length and (n-1)*d < length, hence n <= length: the first `length` bytes of
        // the n-block stream are the first `length` bytes of the `length`-block stream
        if n > 0 {
            assert(n - 1 < length) by (nonlinear_arith) requires (n - 1) * d < length, d >= 1;
        }
        lemma_p_hash_prefix(message_digest, secret@, seed@, n, length as nat);
        lemma_p_hash_len(message_digest, secret@, seed@, length as nat);
        assert(spec_p_hash(message_digest, secret@, seed@, length as nat).subrange(0, length as int)
            =~= result@.subrange(0, length as int));
    }''', before=True)

    fns = {n: splice_contract(clean_fn(sp.impl_fn(r'^impl SecurityPolicy \{', n)), SPEC[n][1], SPEC[n][0])
           for n in ['derived_signature_key_size', 'prf', 'make_secure_channel_keys']}
    fns['make_secure_channel_keys'] = splice_body_start(fns['make_secure_channel_keys'], '        broadcast use lemma_prf_split;')
    fns['prf'] = fns['prf'].replace('openssl_hash::MessageDigest', 'MessageDigest')
    fns['prf'] = re.sub(r'^(\s*)fn prf', r'\1pub fn prf', fns['prf'], count=1)
    derive = splice_contract(clean_fn(sc.impl_fn(r'^impl SecureChannel \{', 'derive_keys')), SPEC['derive_keys'][1], None)
    a = Asm()
    a.add(HEAD, 'prelude', 'env')
    a.add(norm_vis(sp.enum('SecurityPolicy')) + '\n' + '\n'.join(consts), 'types', 'env')
    a.add('''pub struct AesKey { pub value: Vec<u8>, pub security_policy: SecurityPolicy }
impl AesKey {
    pub fn new(security_policy: SecurityPolicy, value: &[u8]) -> (r: AesKey) ensures r.value@ == value@, r.security_policy == security_policy
    { AesKey { value: value.to_vec(), security_policy } }
}
#[verifier::external_body]
fn hmac_vec(digest: MessageDigest, key: &[u8], data: &[u8]) -> (r: Vec<u8>)
    ensures r@ == spec_hmac(digest, key@, data@)
{ unimplemented!() }
''', 'env2', 'env')
    a.add(norm_vis(sc.struct('SecureChannel', keep_fields=['security_policy', 'remote_nonce', 'local_nonce', 'remote_keys', 'local_keys'])), 'types2', 'env')
    a.add('pub mod hash { use vstd::prelude::*; use super::*; verus! {\nbroadcast use {ax::axiom_iter_seq_vec_ref, axh::axiom_hmac_len};')
    a.add(p_sha, 'p_sha', 'fn')
    a.add('} }\nimpl SecurityPolicy {')
    for n in ['derived_signature_key_size', 'prf', 'make_secure_channel_keys']:
        a.add(norm_vis(fns[n]), n, 'fn')
    a.add('}\nimpl SecureChannel {')
    a.add(norm_vis(derive), 'derive_keys', 'fn')
    a.add('}')
    add_proof_fns(a, LEMMAS, 'lemma')
    add_proof_fns(a, CANARY, 'canary')
    a.add('}\nfn main() {}\n')
    return dict(asm=a, pid=PID, short=SHORT, clauses={k: v[1] for k, v in SPEC.items()}, twins={}, witness={},
                assumptions=['C13: HMAC (OpenSSL) is a deterministic function with fixed positive output length per digest; '
                             '"different nonces give different keys" is collision resistance of HMAC and is not claimed',
                             'C13: hash::hmac_vec computes HMAC with the given digest (its four OpenSSL calls are not verified)'])
