from c11_codec import build_for
def build(manifest):
    return build_for(manifest, 'C10')
