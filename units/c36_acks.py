"""C36 — Verus unit: the client's acknowledgement bookkeeping, verbatim (client/session/services/subscriptions/state.rs):
SubscriptionState::{take_acknowledgements, add_acknowledgement, re_queue_acknowledgements (rewrite D22), handle_notification},
over an environment HashMap with std's map semantics.

Proved for every state and every notification: handling a publish response records exactly one acknowledgement
(subscription id, sequence number of the notification) and keeps every acknowledgement recorded before; taking the
acknowledgements for a publish request returns all of them and leaves none (so none is sent twice after a successful send);
re-queueing the acknowledgements of a failed request puts every one of them back, once, next to those recorded in the
meantime. Lemmas over these contracts: one publish cycle that fails loses and duplicates nothing; one that succeeds leaves
exactly the acknowledgement of the notification just received."""
from extract import *

PID = 'C36'
SHORT = 'acks'

ENV = '''
pub struct DecodingOptions { pub x: u64 }
pub struct NotificationMessage { pub sequence_number: u32, pub x: u64 }
pub struct Subscription { pub x: u64 }
impl Subscription {
    // dispatches the notification data to the callbacks of the subscription: nothing to do with acknowledgements
    #[verifier::external_body]
    pub fn on_notification(&mut self, notification: NotificationMessage, decoding_options: &DecodingOptions) { unimplemented!() }
}
// std::collections::HashMap::get_mut (std semantics assumed)
#[verifier::external_body]
#[verifier::reject_recursive_types(K)]
#[verifier::reject_recursive_types(V)]
pub struct HashMap<K, V> { k: std::marker::PhantomData<K>, v: std::marker::PhantomData<V> }
impl<K, V> View for HashMap<K, V> {
    type V = Map<K, V>;
    uninterp spec fn view(&self) -> Map<K, V>;
}
impl<K, V> HashMap<K, V> {
    #[verifier::external_body]
    pub fn get_mut(&mut self, k: &K) -> (r: Option<&mut V>)
        ensures match r {
            Some(v) => old(self)@.contains_key(*k) && *v == old(self)@[*k] && final(self)@ == old(self)@.insert(*k, *final(v)),
            None => !old(self)@.contains_key(*k) && final(self)@ == old(self)@ }
    { unimplemented!() }
}
// std::mem::take: the value is moved out and Default::default() left in its place
pub assume_specification<T: Default> [core::mem::take::<T>] (dest: &mut T) -> (r: T)
    ensures r == *old(dest), T::default.ensures((), *final(dest));
// <Vec<T> as Extend<T>>::extend over vec::IntoIter<T> (rewrite D22): every element appended, in order
#[verifier::external_body]
pub fn vec_extend<T>(dst: &mut Vec<T>, src: Vec<T>)
    ensures final(dst)@ == old(dst)@ + src@
{ unimplemented!() }

// ---- specification: acknowledgements are counted, their order does not matter
pub open spec fn bag(s: Seq<SubscriptionAcknowledgement>) -> vstd::multiset::Multiset<SubscriptionAcknowledgement> { s.to_multiset() }
pub open spec fn ack(subscription_id: u32, sequence_number: u32) -> SubscriptionAcknowledgement {
    SubscriptionAcknowledgement { subscription_id, sequence_number }
}
'''

SPEC = {
    'take_acknowledgements': ('r', '''        ensures
            // everything recorded goes into the request, nothing stays behind to be sent a second time
            bag(r@) == bag(old(self).acknowledgements@), final(self).acknowledgements@.len() == 0,
            final(self).subscriptions@ == old(self).subscriptions@,'''),
    'add_acknowledgement': (None, '''        ensures
            bag(final(self).acknowledgements@) == bag(old(self).acknowledgements@).insert(ack(subscription_id, sequence_number)),
            final(self).subscriptions@ == old(self).subscriptions@,'''),
    're_queue_acknowledgements': (None, '''        ensures
            // every acknowledgement of the failed request is back, once, next to those recorded since
            bag(final(self).acknowledgements@) == bag(old(self).acknowledgements@).add(bag(acks@)),
            final(self).subscriptions@ == old(self).subscriptions@,'''),
    'handle_notification': (None, '''        ensures
            // exactly one acknowledgement for the notification received, all earlier ones kept
            bag(final(self).acknowledgements@) == bag(old(self).acknowledgements@).insert(ack(subscription_id, notification.sequence_number)),
            final(self).subscriptions@.dom() == old(self).subscriptions@.dom(),'''),
}

# proof hints at the head of the body: they mention only the parameters and the state on entry
HINTS = {
    'add_acknowledgement': '        proof { lemma_bag_push(old(self).acknowledgements@, ack(subscription_id, sequence_number)); }',
    're_queue_acknowledgements': '        proof { lemma_bag_concat(old(self).acknowledgements@, acks@); lemma_bag_concat(acks@, old(self).acknowledgements@); }',
}

LEMMAS = '''
proof fn lemma_bag_push(s: Seq<SubscriptionAcknowledgement>, a: SubscriptionAcknowledgement)
    ensures bag(s.push(a)) == bag(s).insert(a),
{
    broadcast use vstd::seq_lib::group_to_multiset_ensures;
}
proof fn lemma_bag_concat(s: Seq<SubscriptionAcknowledgement>, t: Seq<SubscriptionAcknowledgement>)
    ensures bag(s + t) == bag(s).add(bag(t)),
{
    vstd::seq_lib::lemma_multiset_commutative(s, t);
}
// one publish cycle as Session::publish runs it (take; send; on failure re-queue what was taken), with `between` the
// acknowledgements recorded by other responses while the request was in flight:
// a failed cycle loses nothing and duplicates nothing
proof fn lemma_failed_publish_keeps_all(before: Seq<SubscriptionAcknowledgement>, taken: Seq<SubscriptionAcknowledgement>,
        between: Seq<SubscriptionAcknowledgement>, after: Seq<SubscriptionAcknowledgement>)
    requires bag(taken) == bag(before),                        // take_acknowledgements
        bag(after) == bag(between).add(bag(taken)),             // re_queue_acknowledgements on the state as it is by then
    ensures bag(after) == bag(before).add(bag(between)),
{
    assert(bag(between).add(bag(before)) =~= bag(before).add(bag(between)));
}
// a successful cycle: what was taken was sent (once: nothing of it is left), and exactly the new acknowledgement is recorded
proof fn lemma_successful_publish(before: Seq<SubscriptionAcknowledgement>, taken: Seq<SubscriptionAcknowledgement>,
        left: Seq<SubscriptionAcknowledgement>, after: Seq<SubscriptionAcknowledgement>, sub: u32, seq: u32)
    requires bag(taken) == bag(before), left.len() == 0,       // take_acknowledgements
        bag(after) == bag(left).insert(ack(sub, seq)),          // handle_notification
    ensures bag(after) == vstd::multiset::Multiset::<SubscriptionAcknowledgement>::empty().insert(ack(sub, seq)),
        forall|a: SubscriptionAcknowledgement| a != ack(sub, seq) ==> bag(after).count(a) == 0,
{
    assert(left =~= Seq::<SubscriptionAcknowledgement>::empty());
    broadcast use vstd::seq_lib::group_to_multiset_ensures;
    assert(bag(left) =~= vstd::multiset::Multiset::<SubscriptionAcknowledgement>::empty());
}
'''

CANARY = '''
proof fn canary_acks(s: Seq<SubscriptionAcknowledgement>, t: Seq<SubscriptionAcknowledgement>)
    requires bag(s) == bag(t).insert(ack(1, 2)), t.len() == 3,
    ensures false,
{}
'''


def build(manifest):
    st = Src('client/session/services/subscriptions/state.rs', manifest)
    sa = Src('types/service_types/subscription_acknowledgement.rs', manifest)
    rewrites = []
    f = {}
    for n in ['take_acknowledgements', 'add_acknowledgement', 're_queue_acknowledgements', 'handle_notification']:
        t = norm_vis(clean_fn(st.impl_fn(r'^impl SubscriptionState \{', n)))
        t = re.sub(r'^(\s*)fn ', r'\1pub fn ', t, count=1) if not re.match(r'\s*pub ', t) else t
        t = extend_to_env(t, rewrites)
        t = splice_contract(t, SPEC[n][1], SPEC[n][0])
        f[n] = splice_body_start(t, HINTS[n]) if n in HINTS else t
    types = '\n'.join([sa.struct('SubscriptionAcknowledgement', derive='Clone, Copy, PartialEq, Eq, Structural'),
                       st.struct('SubscriptionState', keep_fields=['subscriptions', 'acknowledgements'])])
    a = Asm()
    a.add('use vstd::prelude::*;\nverus! {\nglobal size_of usize == 8;\n', 'prelude', 'env')
    a.add(norm_vis(types), 'types', 'env')
    a.add(ENV, 'env', 'env')
    a.add('impl SubscriptionState {')
    for n in ['take_acknowledgements', 'add_acknowledgement', 're_queue_acknowledgements', 'handle_notification']:
        a.add(f[n], n, 'fn')
    a.add('}')
    add_proof_fns(a, LEMMAS, 'lemma')
    add_proof_fns(a, CANARY, 'canary')
    a.add('}\nfn main() {}\n')
    return dict(asm=a, pid=PID, short=SHORT, clauses={k: v[1] for k, v in SPEC.items()}, twins={}, witness={},
                assumptions=['C36: Session::publish (async fn, tokio; the lock on the subscription state is released while the request is in flight) '
                             'is not under contract: that it calls take_acknowledgements once per request, puts exactly what it took into the '
                             'request, and calls re_queue_acknowledgements with it exactly when the request failed is read off its text, not proved',
                             'C36: that the server received a request the client sent successfully is the transport\'s matter (C35, not applicable)',
                             'C36: rewrite D22 — `E.extend(V.into_iter())` is replaced by an environment function with Vec::extend\'s meaning '
                             '(all elements of V appended to E, in order); std::mem::take moves the value out and leaves Default::default(); '
                             'std HashMap::get_mut has map semantics',
                             'C36: Subscription::on_notification (callbacks) does not touch the acknowledgement list (it has no access to it: '
                             '&mut Subscription only)'])
