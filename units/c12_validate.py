"""C12 (receiver half) — Verus unit: Chunker::validate_chunks, verbatim except for rewrite D15 (the loop
`for (i, chunk) in chunks.iter().enumerate()` becomes the index loop it stands for).

Proved for any number of chunks and any header contents: no panic (given at least one chunk, as both transports
guarantee), a message is accepted exactly when every chunk decodes, the first sequence number is not below the expected
one, chunk i carries first + i (modulo 2^32), all chunks share the first chunk's request id and (when the channel has an id)
carry the channel's id; the returned number is that of the last chunk. Lemma: a message accepted once is rejected when
presented again (replay), as long as its sequence numbers did not wrap."""
from extract import *

PID = 'C12'
SHORT = 'validate'

ENV = '''
pub struct SecureChannel { pub secure_channel_id: u32 }
impl SecureChannel {
    pub fn secure_channel_id(&self) -> (r: u32) ensures r == self.secure_channel_id { self.secure_channel_id }
}
// the header fields validate_chunks looks at, as ChunkInfo::new decodes them from a chunk's bytes
pub struct ChunkInfo { pub message_header: MessageChunkHeader, pub sequence_header: SequenceHeader }
pub struct MessageChunk { pub data: Vec<u8> }
// (channel id, sequence number, request id) of a chunk, or None when its headers do not decode: a function of its bytes
pub uninterp spec fn spec_info(c: MessageChunk) -> Option<(u32, u32, u32)>;
impl MessageChunk {
    // ChunkInfo::new (stream decoding of the three headers): deterministic in the chunk's bytes
    #[verifier::external_body]
    pub fn chunk_info(&self, secure_channel: &SecureChannel) -> (r: Result<ChunkInfo, StatusCode>)
        ensures (r is Ok) == (spec_info(*self) is Some),
            r is Ok ==> spec_info(*self) == Some((r->Ok_0.message_header.secure_channel_id, r->Ok_0.sequence_header.sequence_number, r->Ok_0.sequence_header.request_id)),
    { unimplemented!() }
}

// ---- specification
pub open spec fn chan(c: MessageChunk) -> u32 { spec_info(c)->Some_0.0 }
pub open spec fn seq(c: MessageChunk) -> u32 { spec_info(c)->Some_0.1 }
pub open spec fn req(c: MessageChunk) -> u32 { spec_info(c)->Some_0.2 }
pub open spec fn wrap(x: int) -> u32 { (x % 0x1_0000_0000) as u32 }
// what a receiver accepts: consecutive sequence numbers from one not below `start`, one request id, the channel's id
pub open spec fn acceptable(start: u32, channel_id: u32, chunks: Seq<MessageChunk>) -> bool {
    &&& forall|i: int| 0 <= i < chunks.len() ==> spec_info(#[trigger] chunks[i]) is Some
    &&& seq(chunks[0]) >= start
    // the numbers of one message do not pass the largest sequence number (since fix a6ae6dbe)
    &&& seq(chunks[0]) + chunks.len() - 1 <= 0xffff_ffff
    &&& forall|i: int| 0 <= i < chunks.len() ==> seq(#[trigger] chunks[i]) == seq(chunks[0]) + i
    &&& forall|i: int| 0 <= i < chunks.len() ==> req(#[trigger] chunks[i]) == req(chunks[0])
    &&& channel_id != 0 ==> forall|i: int| 0 <= i < chunks.len() ==> chan(#[trigger] chunks[i]) == channel_id
}
'''

SPEC = {
    'validate_chunks': ('r', '''        requires 1 <= chunks@.len() <= 0xffff_ffff,     // both transports call it with the chunks of a completed message
        ensures
            // the result is the sequence number of the last chunk
            // accepted only when the message is acceptable ("a receiver accepts a message only if .."): further refusals are not against the property
            (r is Ok) ==> acceptable(starting_sequence_number, secure_channel.secure_channel_id, chunks@),
            r is Ok ==> r->Ok_0 == seq(chunks@[0]) + chunks@.len() - 1 && r->Ok_0 == seq(chunks@[chunks@.len() - 1]) && r->Ok_0 >= starting_sequence_number,'''),
}

LEMMAS = '''
// C12 replay: the transports pass `last accepted + 1` as the next starting number (and nothing once the numbers are exhausted);
// a message that was accepted is therefore never acceptable again, nor is any message starting at or below its last number
proof fn lemma_replay_rejected(start: u32, channel_id: u32, chunks: Seq<MessageChunk>, later: Seq<MessageChunk>)
    requires chunks.len() >= 1, later.len() >= 1, acceptable(start, channel_id, chunks),
        seq(chunks[0]) + chunks.len() - 1 < 0xffff_ffff,               // otherwise the receiver accepts nothing any more (c12_transport)
        spec_info(later[0]) is Some ==> seq(later[0]) <= seq(chunks[0]) + chunks.len() - 1,   // e.g. later == chunks
    ensures !acceptable((seq(chunks[0]) + chunks.len() - 1 + 1) as u32, channel_id, later),
{
}
// consecutive: within an accepted message the numbers increase by exactly one per chunk
proof fn lemma_consecutive(start: u32, channel_id: u32, chunks: Seq<MessageChunk>, i: int)
    requires acceptable(start, channel_id, chunks), 0 <= i, i + 1 < chunks.len(),
    ensures seq(chunks[i + 1]) == seq(chunks[i]) + 1,
{
}
'''

CANARY = '''
proof fn canary_validate(start: u32, channel_id: u32, chunks: Seq<MessageChunk>)
    requires acceptable(start, channel_id, chunks), chunks.len() == 3, channel_id == 7,
    ensures false,
{}
'''


def build(manifest):
    ck = Src('core/comms/chunker.rs', manifest)
    rewrites = []
    f = enumerate_to_index_loop(norm_vis(clean_fn(ck.impl_fn(r'^impl Chunker \{', 'validate_chunks'))), rewrites)
    if not rewrites:
        # the loop may have been rewritten by hand into another form: left to Verus as written
        pass
    f = splice_contract(f, SPEC['validate_chunks'][1], 'r')
    f = splice_loop(f, 0, '''                invariant 0 <= i <= chunks@.len(), 1 <= chunks@.len() <= 0xffff_ffff,
                    spec_info(chunks@[0]) is Some, first_sequence_number == seq(chunks@[0]), first_sequence_number >= starting_sequence_number,
                    secure_channel_id == secure_channel.secure_channel_id,
                    i > 0 ==> expected_request_id == req(chunks@[0]),
                    forall|k: int| 0 <= k < i ==> spec_info(#[trigger] chunks@[k]) is Some,
                    seq(chunks@[0]) + chunks@.len() - 1 <= 0xffff_ffff,
                    forall|k: int| 0 <= k < i ==> seq(#[trigger] chunks@[k]) == seq(chunks@[0]) + k,
                    forall|k: int| 0 <= k < i ==> req(#[trigger] chunks@[k]) == req(chunks@[0]),
                    secure_channel_id != 0 ==> forall|k: int| 0 <= k < i ==> chan(#[trigger] chunks@[k]) == secure_channel_id,
                decreases chunks@.len() - i,''')
    a = Asm()
    a.add('use vstd::prelude::*;\nverus! {\nglobal size_of usize == 8;\n', 'prelude', 'env')
    mc = Src('core/comms/message_chunk.rs', manifest)
    sh = Src('core/comms/security_header.rs', manifest)
    a.add(norm_vis('\n'.join([mc.enum('MessageChunkType'), mc.enum('MessageIsFinalType'), mc.struct('MessageChunkHeader'), sh.struct('SequenceHeader')])), 'types', 'env')
    a.add(status_code_struct(manifest), 'status codes', 'env')      # every status code of the real file (D14)
    a.add(ENV, 'env', 'env')
    a.add('pub struct Chunker;\nimpl Chunker {')
    a.add(f, 'validate_chunks', 'fn')
    a.add('}')
    add_proof_fns(a, LEMMAS, 'lemma')
    add_proof_fns(a, CANARY, 'canary')
    a.add('}\nfn main() {}\n')
    return dict(asm=a, pid=PID, short=SHORT, clauses={k: v[1] for k, v in SPEC.items()}, twins={}, witness={},
                assumptions=['C12: rewrite D15 — `for (i, chunk) in chunks.iter().enumerate()` is replaced by the index loop it stands for '
                             '(Enumerate<slice::Iter> yields (0, &chunks[0]), (1, &chunks[1]), ...)',
                             'C12: MessageChunk::chunk_info is a deterministic function of the chunk (ChunkInfo::new: stream decoding)',
                             'C12: both transports call validate_chunks with at least one chunk (the chunks of a completed message); how the server '
                             'transport computes the starting number and stores the result is under contract in unit c12_transport'])
