"""C40 — Verus unit: the retransmission queue as seen by Republish and by acknowledgements, verbatim
(server/subscriptions/subscriptions.rs): Subscriptions::find_notification_message and
Subscriptions::process_subscription_acknowledgements (rewrite D19: `iter().map(|ack| ..).collect()` becomes the loop it
stands for), over an environment BTreeMap with std's map semantics.

Proved for any queue contents and any list of acknowledgements: a retained notification is returned by Republish exactly
as stored, as long as its (subscription, sequence number) is retained and the subscription exists; an acknowledgement
removes exactly its own entry and answers Good, an unknown sequence number answers BadSequenceNumberUnknown and an unknown
subscription BadSubscriptionIdInvalid, both without touching any entry; results come in the order of the
acknowledgements; after a Good acknowledgement the notification is no longer available."""
from extract import *

PID = 'C40'
SHORT = 'retained'

ENV = '''
pub struct RequestHeader { pub x: u64 }
pub struct Subscription { pub x: u64 }
pub struct NotificationMessage { pub sequence_number: u32, pub x: u64 }
impl Clone for NotificationMessage {
    // #[derive(Clone)]
    #[verifier::external_body]
    fn clone(&self) -> (r: Self) ensures r == *self { unimplemented!() }
}
// std::collections::BTreeMap with the map operations used here (std semantics assumed)
#[verifier::external_body]
#[verifier::reject_recursive_types(K)]
#[verifier::reject_recursive_types(V)]
pub struct BTreeMap<K, V> { k: std::marker::PhantomData<K>, v: std::marker::PhantomData<V> }
impl<K, V> View for BTreeMap<K, V> {
    type V = Map<K, V>;
    uninterp spec fn view(&self) -> Map<K, V>;
}
impl<K, V> BTreeMap<K, V> {
    #[verifier::external_body]
    pub fn contains_key(&self, k: &K) -> (r: bool) ensures r == self@.contains_key(*k) { unimplemented!() }
    #[verifier::external_body]
    pub fn get(&self, k: &K) -> (r: Option<&V>)
        ensures match r { Some(v) => self@.contains_key(*k) && *v == self@[*k], None => !self@.contains_key(*k) }
    { unimplemented!() }
    #[verifier::external_body]
    pub fn remove(&mut self, k: &K) -> (r: Option<V>)
        ensures final(self)@ == old(self)@.remove(*k),
            match r { Some(v) => old(self)@.contains_key(*k) && v == old(self)@[*k], None => !old(self)@.contains_key(*k) }
    { unimplemented!() }
}

// ---- specification
// the answer to one acknowledgement and what it leaves of the retained notifications
pub open spec fn ack_ok(st: StatusCode, subs: Map<u32, Subscription>, q: Map<(u32, u32), NotificationMessage>, a: SubscriptionAcknowledgement) -> bool {
    if !subs.contains_key(a.subscription_id) { st != StatusCode::Good }       // (which Bad status: not part of the property)
    else if q.contains_key((a.subscription_id, a.sequence_number)) { st == StatusCode::Good }
    else { st == StatusCode::BadSequenceNumberUnknown }
}
pub open spec fn ack_queue(subs: Map<u32, Subscription>, q: Map<(u32, u32), NotificationMessage>, a: SubscriptionAcknowledgement) -> Map<(u32, u32), NotificationMessage> {
    if subs.contains_key(a.subscription_id) { q.remove((a.subscription_id, a.sequence_number)) } else { q }
}
// the queue after the first n acknowledgements
pub open spec fn acked(subs: Map<u32, Subscription>, q: Map<(u32, u32), NotificationMessage>, acks: Seq<SubscriptionAcknowledgement>, n: int) -> Map<(u32, u32), NotificationMessage>
    decreases n
{
    if n <= 0 { q } else { ack_queue(subs, acked(subs, q, acks, n - 1), acks[n - 1]) }
}
'''

SPEC = {
    'find_notification_message': ('r', '''        ensures
            // Republish: the retained message, exactly as it was stored
            // (which status an unavailable message gets is not part of the property)
            if self.subscriptions@.contains_key(subscription_id) && self.retransmission_queue@.contains_key((subscription_id, sequence_number)) {
                r == Ok::<NotificationMessage, StatusCode>(self.retransmission_queue@[(subscription_id, sequence_number)])
            } else { r is Err },'''),
    'process_subscription_acknowledgements': ('r', '''        ensures
            final(self).subscriptions@ == old(self).subscriptions@,
            request.subscription_acknowledgements is None ==> final(self).retransmission_queue@ == old(self).retransmission_queue@
                && (r is None || r->Some_0@.len() == 0),
            request.subscription_acknowledgements is Some ==> ({
                let acks = request.subscription_acknowledgements->Some_0@;
                let subs = old(self).subscriptions@;
                let q0 = old(self).retransmission_queue@;
                // one answer per acknowledgement, in order, each judged against what the earlier ones left (no list at all is as good as
                // an empty one when there is nothing to acknowledge)
                &&& acks.len() > 0 ==> r is Some
                &&& r is Some ==> r->Some_0@.len() == acks.len()
                &&& r is Some ==> forall|i: int| 0 <= i < acks.len() ==> ack_ok(#[trigger] r->Some_0@[i], subs, acked(subs, q0, acks, i), acks[i])
                &&& final(self).retransmission_queue@ == acked(subs, q0, acks, acks.len() as int)
            }),'''),
}

LEMMAS = '''
// acknowledging never touches an entry that was not acknowledged, and never adds one
proof fn lemma_other_entries_untouched(subs: Map<u32, Subscription>, q: Map<(u32, u32), NotificationMessage>, acks: Seq<SubscriptionAcknowledgement>, n: int, k: (u32, u32))
    requires 0 <= n <= acks.len(),
        forall|i: int| 0 <= i < n ==> (#[trigger] acks[i].subscription_id, acks[i].sequence_number) != k,
    ensures acked(subs, q, acks, n).contains_key(k) == q.contains_key(k),
        q.contains_key(k) ==> acked(subs, q, acks, n)[k] == q[k],
    decreases n,
{
    if n > 0 {
        lemma_other_entries_untouched(subs, q, acks, n - 1, k);
        assert((acks[n - 1].subscription_id, acks[n - 1].sequence_number) != k);
    }
}
// after an acknowledgement answered Good the notification is gone (Republish answers BadMessageNotAvailable)
proof fn lemma_acknowledged_is_gone(subs: Map<u32, Subscription>, q: Map<(u32, u32), NotificationMessage>, a: SubscriptionAcknowledgement)
    requires ack_ok(StatusCode::Good, subs, q, a),
    ensures !ack_queue(subs, q, a).contains_key((a.subscription_id, a.sequence_number)),
        forall|k: (u32, u32)| k != (a.subscription_id, a.sequence_number) ==> ack_queue(subs, q, a).contains_key(k) == q.contains_key(k),
{
}
// an acknowledgement that is refused changes nothing
proof fn lemma_refused_changes_nothing(subs: Map<u32, Subscription>, q: Map<(u32, u32), NotificationMessage>, a: SubscriptionAcknowledgement)
    requires !ack_ok(StatusCode::Good, subs, q, a),
    ensures ack_queue(subs, q, a) =~= q,
{
}
'''

CANARY = '''
proof fn canary_retained(subs: Map<u32, Subscription>, q: Map<(u32, u32), NotificationMessage>, a: SubscriptionAcknowledgement)
    requires ack_ok(StatusCode::Good, subs, q, a), q.contains_key((7u32, 8u32)),
    ensures false,
{}
'''


def build(manifest):
    su = Src('server/subscriptions/subscriptions.rs', manifest)
    sa = Src('types/service_types/subscription_acknowledgement.rs', manifest)
    pr = Src('types/service_types/publish_request.rs', manifest)
    rewrites = []
    f = {}
    f['find_notification_message'] = norm_vis(clean_fn(su.impl_fn(r'^impl Subscriptions \{', 'find_notification_message')))
    f['process_subscription_acknowledgements'] = map_collect_to_loop(
        norm_vis(clean_fn(su.impl_fn(r'^impl Subscriptions \{', 'process_subscription_acknowledgements'))), rewrites)
    for k in f:
        t = f[k]
        t = re.sub(r'^(\s*)fn ', r'\1pub fn ', t, count=1) if not re.match(r'\s*pub ', t) else t
        f[k] = splice_contract(t, SPEC[k][1], SPEC[k][0])
    g = f['process_subscription_acknowledgements']
    if rewrites:
        g = splice_loop(g, 0, '''                invariant idx_subscription_acknowledgement <= subscription_acknowledgements@.len(),
                    request.subscription_acknowledgements is Some, subscription_acknowledgements@ == request.subscription_acknowledgements->Some_0@,
                    self.subscriptions@ == old(self).subscriptions@,
                    results@.len() == idx_subscription_acknowledgement,
                    self.retransmission_queue@ == acked(old(self).subscriptions@, old(self).retransmission_queue@, subscription_acknowledgements@, idx_subscription_acknowledgement as int),
                    forall|i: int| 0 <= i < idx_subscription_acknowledgement ==> ack_ok(#[trigger] results@[i], old(self).subscriptions@,
                        acked(old(self).subscriptions@, old(self).retransmission_queue@, subscription_acknowledgements@, i), subscription_acknowledgements@[i]),
                decreases subscription_acknowledgements@.len() - idx_subscription_acknowledgement,''')
    f['process_subscription_acknowledgements'] = g
    types = '\n'.join([
        sa.struct('SubscriptionAcknowledgement'), pr.struct('PublishRequest'),
        su.struct('Subscriptions', keep_fields=['subscriptions', 'retransmission_queue']),
    ])
    a = Asm()
    a.add('use vstd::prelude::*;\nverus! {\nglobal size_of usize == 8;\n', 'prelude', 'env')
    a.add(status_code_struct(manifest), 'status codes', 'env')      # every status code of the real file (D14)
    a.add(ENV, 'env', 'env')
    a.add(norm_vis(types), 'types', 'env')
    a.add('impl Subscriptions {')
    a.add(f['find_notification_message'], 'find_notification_message', 'fn')
    a.add(f['process_subscription_acknowledgements'], 'process_subscription_acknowledgements', 'fn')
    a.add('}')
    add_proof_fns(a, LEMMAS, 'lemma')
    add_proof_fns(a, CANARY, 'canary')
    a.add('}\nfn main() {}\n')
    return dict(asm=a, pid=PID, short=SHORT, clauses={k: v[1] for k, v in SPEC.items()}, twins={}, witness={},
                assumptions=['C40: rewrite D19 — `acks.iter().map(|ack| BODY).collect()` is replaced by the loop it stands for '
                             '(BODY evaluated for each acknowledgement in order, results pushed to a Vec)',
                             'C40: std::collections::BTreeMap::{contains_key, get, remove} have map semantics (environment type with a '
                             'Map view); #[derive(Clone)] on NotificationMessage copies the message',
                             'C40: how notifications get INTO the retransmission queue (Subscriptions::tick: sort_by, the transmission '
                             'queue, make_publish_response) and eviction (remove_old_unacknowledged_notifications: filter / take / map '
                             'over the BTreeMap iterator) are not under contract; the Republish service function (locks) is not either'])
