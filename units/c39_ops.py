"""C39 — Verus unit over the event filter operators (server/events/operator.rs), verbatim, with the real Variant /
VariantTypeId / FilterOperator / Operand / ContentFilterElement types and the file's own macros.

variant 'ops': evaluate, value_as, convert, compare_operands, is_null, eq, gt, lt, gte, lte, not, between, and, or,
  like, bitwise_operation, bitwise_and, bitwise_or, Variant::type_id, VariantTypeId::precedence with `value_of` as a
  deterministic environment function: no panic for ANY clause (operand counts are checked before operands are indexed, a
  failed implicit conversion is an error result, not a panic), and the results follow Part 4: comparison operators over the
  converted operands, Between, And / Or / Not truth tables with NULL, IsNull, and evaluate dispatches every operator to its
  own semantics.
variant 'rec': value_of itself (with `evaluate` as environment): an element operand outside the clause, an attribute
  operand and a cyclic reference give a status instead of a panic; a literal gives its value."""
from extract import *

SHORT = 'ops'

ENV = '''
// ---- payloads of a Variant that the operators do not look into
pub struct UAString { pub x: u64 }
pub type XmlElement = UAString;
pub struct ByteString { pub x: u64 }
pub struct DateTime { pub x: u64 }
pub struct Guid { pub x: u64 }
pub struct QualifiedName { pub x: u64 }
pub struct LocalizedText { pub x: u64 }
pub struct NodeId { pub x: u64 }
pub struct ExpandedNodeId { pub node_id: NodeId }
pub struct ExtensionObject { pub x: u64 }
pub struct DataValue { pub x: u64 }
pub struct DiagnosticInfo { pub x: u64 }
pub struct Array { pub x: u64 }
pub struct AttributeOperand { pub x: u64 }
pub struct SimpleAttributeOperand { pub x: u64 }
pub struct AddressSpace { pub x: u64 }
// std::collections::HashSet<u32> of the element indices on the evaluation path
pub struct HashSet<T> { pub elems: Vec<T> }
impl HashSet<u32> {
    pub uninterp spec fn set(&self) -> Set<u32>;           // the indices it holds (std set semantics)
    #[verifier::external_body] pub fn contains(&self, k: &u32) -> (r: bool) ensures r == self.set().contains(*k) { unimplemented!() }
    #[verifier::external_body] pub fn insert(&mut self, k: u32) -> (r: bool) ensures final(self).set() == old(self).set().insert(k) { unimplemented!() }
    #[verifier::external_body] pub fn remove(&mut self, k: &u32) -> (r: bool) ensures final(self).set() == old(self).set().remove(*k) { unimplemented!() }
}
// termination measure of the evaluate / value_of recursion: the elements of the clause that are not on the evaluation path yet
pub open spec fn cap(n: nat) -> int { if n > 0x1_0000_0000 { 0x1_0000_0000 } else { n as int } }      // an index is a u32
pub open spec fn free(used: Set<u32>, n: nat) -> nat {
    vstd::set_lib::set_int_range(0, cap(n)).filter(|k: int| !used.contains(k as u32)).len()
}
pub struct Regex { pub x: u64 }
impl Regex { #[verifier::external_body] pub fn is_match(&self, s: &str) -> (r: bool) { unimplemented!() } }
impl UAString { #[verifier::external_body] pub fn as_ref(&self) -> (r: &str) { unimplemented!() } }
// like_to_regex: the LIKE pattern translation (regex crate)
#[verifier::external_body]
pub fn like_to_regex(v: &str) -> (r: Result<Regex, ()>) { unimplemented!() }

// #[derive(PartialEq)] on Variant: structural equality (for floating point payloads IEEE equality, which is not needed here)
pub uninterp spec fn float_aware_eq(a: Variant, b: Variant) -> bool;
pub open spec fn variant_eq(a: Variant, b: Variant) -> bool {
    if a is Boolean || a is Empty || b is Boolean || b is Empty { a == b } else { float_aware_eq(a, b) }
}
impl vstd::std_specs::cmp::PartialEqSpecImpl for Variant {
    open spec fn obeys_eq_spec() -> bool { true }
    open spec fn eq_spec(&self, other: &Variant) -> bool { variant_eq(*self, *other) }
}
impl PartialEq for Variant {
    #[verifier::external_body]
    fn eq(&self, other: &Variant) -> (r: bool) { unimplemented!() }
}
impl Clone for Variant {
    #[verifier::external_body]
    fn clone(&self) -> (r: Self) ensures r == *self { unimplemented!() }
}
// From<T> for Variant for the scalar types the operators produce: wraps the value in the matching variant
FROM_IMPLS
// Variant::convert (Part 4 table 118 implicit conversion): the value itself when it already has the type, otherwise a
// value of the target type or Empty when there is no conversion; a function of (value, type)
pub uninterp spec fn spec_convert(v: Variant, t: VariantTypeId) -> Variant;
pub uninterp spec fn spec_cast(v: Variant, t: VariantTypeId) -> Variant;
impl Variant {
    #[verifier::external_body]
    pub fn convert(&self, target_type: VariantTypeId) -> (r: Variant)
        ensures r == spec_convert(*self, target_type), type_of(*self) == target_type ==> r == *self,
            r is Empty || type_of(r) == target_type,
    { unimplemented!() }
}
// operator::cast (VariantTypeId::try_from(&NodeId), Variant::cast): reads operands 0 and 1
#[verifier::external_body]
pub fn cast(object_id: &NodeId, operands: &[Operand], used_elements: &mut HashSet<u32>, elements: &[ContentFilterElement],
            address_space: &AddressSpace) -> (r: Result<Variant, StatusCode>)
    requires operands@.len() >= 2,
    ensures *final(used_elements) == *old(used_elements),
{ unimplemented!() }
// operator::in_list: `operands[1..].iter().any(|o| compare_operands(&operands[0], o, ..) == Equals)` (closure over &mut state)
#[verifier::external_body]
pub fn in_list(object_id: &NodeId, operands: &[Operand], used_elements: &mut HashSet<u32>, elements: &[ContentFilterElement],
               address_space: &AddressSpace) -> (r: Result<Variant, StatusCode>)
    requires operands@.len() >= 1,
    ensures *final(used_elements) == *old(used_elements), r is Ok && r->Ok_0 is Boolean,
{ unimplemented!() }
// make_filter_operands (iterator adapters over Operand::try_from): all operands or an error
pub uninterp spec fn spec_operands(f: Seq<ExtensionObject>) -> Result<Seq<Operand>, StatusCode>;
// one operand per extension object (the adapters map each element)
#[verifier::external_body]
pub proof fn axiom_operands_len(f: Seq<ExtensionObject>)
    ensures spec_operands(f) is Ok ==> spec_operands(f)->Ok_0.len() == f.len(),
{}
#[verifier::external_body]
pub fn make_filter_operands(filter_operands: &[ExtensionObject]) -> (r: Result<Vec<Operand>, StatusCode>)
    ensures match spec_operands(filter_operands@) { Ok(s) => r is Ok && r->Ok_0@ == s && s.len() == filter_operands@.len(), Err(e) => r == Err::<Vec<Operand>, StatusCode>(e) },
{ unimplemented!() }

// ---- specification
pub open spec fn type_of(v: Variant) -> VariantTypeId {
    match v {
        Variant::Empty => VariantTypeId::Empty,
        Variant::Boolean(_) => VariantTypeId::Boolean,
        Variant::SByte(_) => VariantTypeId::SByte,
        Variant::Byte(_) => VariantTypeId::Byte,
        Variant::Int16(_) => VariantTypeId::Int16,
        Variant::UInt16(_) => VariantTypeId::UInt16,
        Variant::Int32(_) => VariantTypeId::Int32,
        Variant::UInt32(_) => VariantTypeId::UInt32,
        Variant::Int64(_) => VariantTypeId::Int64,
        Variant::UInt64(_) => VariantTypeId::UInt64,
        Variant::Float(_) => VariantTypeId::Float,
        Variant::Double(_) => VariantTypeId::Double,
        Variant::String(_) => VariantTypeId::String,
        Variant::DateTime(_) => VariantTypeId::DateTime,
        Variant::Guid(_) => VariantTypeId::Guid,
        Variant::StatusCode(_) => VariantTypeId::StatusCode,
        Variant::ByteString(_) => VariantTypeId::ByteString,
        Variant::XmlElement(_) => VariantTypeId::XmlElement,
        Variant::QualifiedName(_) => VariantTypeId::QualifiedName,
        Variant::LocalizedText(_) => VariantTypeId::LocalizedText,
        Variant::NodeId(_) => VariantTypeId::NodeId,
        Variant::ExpandedNodeId(_) => VariantTypeId::ExpandedNodeId,
        Variant::ExtensionObject(_) => VariantTypeId::ExtensionObject,
        Variant::Variant(_) => VariantTypeId::Variant,
        Variant::DataValue(_) => VariantTypeId::DataValue,
        Variant::DiagnosticInfo(_) => VariantTypeId::DiagnosticInfo,
        Variant::Array(_) => VariantTypeId::Array,
    }
}
// Part 4 table 118 precedence (lower number = higher precedence)
pub open spec fn prec(t: VariantTypeId) -> u8 {
    match t {
        VariantTypeId::Double => 1, VariantTypeId::Float => 2, VariantTypeId::Int64 => 3, VariantTypeId::UInt64 => 4,
        VariantTypeId::Int32 => 5, VariantTypeId::UInt32 => 6, VariantTypeId::StatusCode => 7, VariantTypeId::Int16 => 8,
        VariantTypeId::UInt16 => 9, VariantTypeId::SByte => 10, VariantTypeId::Byte => 11, VariantTypeId::Boolean => 12,
        VariantTypeId::Guid => 13, VariantTypeId::String => 14, VariantTypeId::ExpandedNodeId => 15, VariantTypeId::NodeId => 16,
        VariantTypeId::LocalizedText => 17, VariantTypeId::QualifiedName => 18, _ => 100,
    }
}
// the operand with the lower precedence is converted to the type of the other
pub open spec fn conv2(v1: Variant, v2: Variant) -> (Variant, Variant) {
    if type_of(v1) != type_of(v2) {
        if prec(type_of(v1)) < prec(type_of(v2)) { (v1, spec_convert(v2, type_of(v1))) } else { (spec_convert(v1, type_of(v2)), v2) }
    } else { (v1, v2) }
}
pub open spec fn ord(a: int, b: int) -> ComparisonResult {
    if a < b { ComparisonResult::LessThan } else if a == b { ComparisonResult::Equals } else { ComparisonResult::GreaterThan }
}
pub uninterp spec fn float_ord(v1: Variant, v2: Variant) -> ComparisonResult;
// comparison of two values after implicit conversion; Error when they cannot be compared
pub open spec fn cmp(a: Variant, b: Variant) -> ComparisonResult {
    let (v1, v2) = conv2(a, b);
    match (v1, v2) {
        (Variant::SByte(x), Variant::SByte(y)) => ord(x as int, y as int),
        (Variant::Byte(x), Variant::Byte(y)) => ord(x as int, y as int),
        (Variant::Int16(x), Variant::Int16(y)) => ord(x as int, y as int),
        (Variant::UInt16(x), Variant::UInt16(y)) => ord(x as int, y as int),
        (Variant::Int32(x), Variant::Int32(y)) => ord(x as int, y as int),
        (Variant::UInt32(x), Variant::UInt32(y)) => ord(x as int, y as int),
        (Variant::Int64(x), Variant::Int64(y)) => ord(x as int, y as int),
        (Variant::UInt64(x), Variant::UInt64(y)) => ord(x as int, y as int),
        (Variant::Double(_), Variant::Double(_)) => float_ord(v1, v2),
        (Variant::Float(_), Variant::Float(_)) => float_ord(v1, v2),
        (Variant::Boolean(_), _) => if v1 == v2 { ComparisonResult::Equals } else { ComparisonResult::NotEquals },
        _ => ComparisonResult::Error,
    }
}
// evaluation context and the value of an operand in it (value_of: literal, attribute of the event, or a sub-element)
pub struct Ctx { pub object_id: NodeId, pub used: HashSet<u32>, pub elements: Seq<ContentFilterElement>, pub address_space: AddressSpace }
pub uninterp spec fn spec_value_of(c: Ctx, o: Operand) -> Result<Variant, StatusCode>;
pub open spec fn val_as(c: Ctx, o: Operand, t: VariantTypeId) -> Result<Variant, StatusCode> {
    match spec_value_of(c, o) { Ok(v) => Ok(spec_convert(v, t)), Err(e) => Err(e) }
}
pub open spec fn cmp_ops(c: Ctx, o1: Operand, o2: Operand) -> Result<ComparisonResult, StatusCode> {
    match spec_value_of(c, o1) { Err(e) => Err(e), Ok(a) => match spec_value_of(c, o2) { Err(e) => Err(e), Ok(b) => Ok(cmp(a, b)) } }
}
pub open spec fn bool_of(r: Result<ComparisonResult, StatusCode>, f: spec_fn(ComparisonResult) -> bool) -> Result<Variant, StatusCode> {
    match r { Ok(c) => Ok(Variant::Boolean(f(c))), Err(e) => Err(e) }
}
// Part 4 tables 120 / 121 with NULL for anything that is not a Boolean
pub open spec fn tri_and(a: Variant, b: Variant) -> Variant {
    if a == Variant::Boolean(true) && b == Variant::Boolean(true) { Variant::Boolean(true) }
    else if a == Variant::Boolean(false) || b == Variant::Boolean(false) { Variant::Boolean(false) }
    else { Variant::Empty }
}
pub open spec fn tri_or(a: Variant, b: Variant) -> Variant {
    if a == Variant::Boolean(true) || b == Variant::Boolean(true) { Variant::Boolean(true) }
    else if a == Variant::Boolean(false) && b == Variant::Boolean(false) { Variant::Boolean(false) }
    else { Variant::Empty }
}
pub open spec fn tri_not(a: Variant) -> Variant { match a { Variant::Boolean(b) => Variant::Boolean(!b), _ => Variant::Empty } }
pub open spec fn two(c: Ctx, ops: Seq<Operand>, t: VariantTypeId, f: spec_fn(Variant, Variant) -> Variant) -> Result<Variant, StatusCode> {
    match val_as(c, ops[0], t) { Err(e) => Err(e), Ok(a) => match val_as(c, ops[1], t) { Err(e) => Err(e), Ok(b) => Ok(f(a, b)) } }
}
// the operators of Part 4 table 115 that are implemented, over the operands of one element
pub open spec fn sem_eq(c: Ctx, ops: Seq<Operand>) -> Result<Variant, StatusCode> { bool_of(cmp_ops(c, ops[0], ops[1]), |x: ComparisonResult| x == ComparisonResult::Equals) }
pub open spec fn sem_gt(c: Ctx, ops: Seq<Operand>) -> Result<Variant, StatusCode> { bool_of(cmp_ops(c, ops[0], ops[1]), |x: ComparisonResult| x == ComparisonResult::GreaterThan) }
pub open spec fn sem_lt(c: Ctx, ops: Seq<Operand>) -> Result<Variant, StatusCode> { bool_of(cmp_ops(c, ops[0], ops[1]), |x: ComparisonResult| x == ComparisonResult::LessThan) }
pub open spec fn sem_gte(c: Ctx, ops: Seq<Operand>) -> Result<Variant, StatusCode> { bool_of(cmp_ops(c, ops[0], ops[1]), |x: ComparisonResult| x == ComparisonResult::GreaterThan || x == ComparisonResult::Equals) }
pub open spec fn sem_lte(c: Ctx, ops: Seq<Operand>) -> Result<Variant, StatusCode> { bool_of(cmp_ops(c, ops[0], ops[1]), |x: ComparisonResult| x == ComparisonResult::LessThan || x == ComparisonResult::Equals) }
pub open spec fn sem_is_null(c: Ctx, ops: Seq<Operand>) -> Result<Variant, StatusCode> {
    match spec_value_of(c, ops[0]) { Ok(v) => Ok(Variant::Boolean(v is Empty)), Err(e) => Err(e) }
}
pub open spec fn sem_not(c: Ctx, ops: Seq<Operand>) -> Result<Variant, StatusCode> {
    match val_as(c, ops[0], VariantTypeId::Boolean) { Ok(v) => Ok(tri_not(v)), Err(e) => Err(e) }
}
pub open spec fn sem_and(c: Ctx, ops: Seq<Operand>) -> Result<Variant, StatusCode> { two(c, ops, VariantTypeId::Boolean, |a: Variant, b: Variant| tri_and(a, b)) }
pub open spec fn sem_or(c: Ctx, ops: Seq<Operand>) -> Result<Variant, StatusCode> { two(c, ops, VariantTypeId::Boolean, |a: Variant, b: Variant| tri_or(a, b)) }
// operand[0] >= operand[1] and operand[0] <= operand[2]
pub open spec fn sem_between(c: Ctx, ops: Seq<Operand>) -> Result<Variant, StatusCode> {
    match cmp_ops(c, ops[0], ops[1]) {
        Err(e) => Err(e),
        Ok(c01) => if c01 == ComparisonResult::GreaterThan || c01 == ComparisonResult::Equals {
            match cmp_ops(c, ops[0], ops[2]) {
                Err(e) => Err(e),
                Ok(c02) => Ok(Variant::Boolean(c02 == ComparisonResult::LessThan || c02 == ComparisonResult::Equals)),
            }
        } else { Ok(Variant::Boolean(false)) },
    }
}
pub open spec fn needed(op: FilterOperator) -> int {
    match op {
        FilterOperator::IsNull | FilterOperator::Not => 1,
        FilterOperator::Between => 3,
        FilterOperator::InView | FilterOperator::OfType | FilterOperator::RelatedTo => 0,
        _ => 2,
    }
}
pub open spec fn ctx(object_id: &NodeId, used: &HashSet<u32>, elements: &[ContentFilterElement], address_space: &AddressSpace) -> Ctx {
    Ctx { object_id: *object_id, used: *used, elements: elements@, address_space: *address_space }
}
'''

VALUE_OF_ENV = '''
// value_of (variant 'ops'): a deterministic function of the context; the set of used elements is the same afterwards
#[verifier::external_body]
pub fn value_of(object_id: &NodeId, operand: &Operand, used_elements: &mut HashSet<u32>, elements: &[ContentFilterElement],
                address_space: &AddressSpace) -> (r: Result<Variant, StatusCode>)
    ensures *final(used_elements) == *old(used_elements),
        r == spec_value_of(ctx(object_id, old(used_elements), elements, address_space), *operand),
{ unimplemented!() }
'''

EVALUATE_ENV = '''
// evaluate (variant 'rec'): the other half of the mutual recursion
#[verifier::external_body]
pub fn evaluate(object_id: &NodeId, element: &ContentFilterElement, used_elements: &mut HashSet<u32>, elements: &[ContentFilterElement],
                address_space: &AddressSpace) -> (r: Result<Variant, StatusCode>)
{ unimplemented!() }
// value_of_simple_attribute: browse path lookup in the address space
#[verifier::external_body]
pub fn value_of_simple_attribute(object_id: &NodeId, o: &SimpleAttributeOperand, address_space: &AddressSpace) -> (r: Variant)
{ unimplemented!() }
'''

CMP_ENS = '''        requires operands@.len() >= 2,
        ensures *final(used_elements) == *old(used_elements),
            r == SEM(ctx(object_id, old(used_elements), elements, address_space), operands@),'''

SPEC = {
    'type_id': ('r', '''        ensures r == type_of(*self),'''),
    'precedence': ('r', '''        ensures r == prec(*self),'''),
    'convert': ('r', '''        ensures r == conv2(v1, v2),'''),
    'value_as': ('r', '''        ensures *final(used_elements) == *old(used_elements),
            r == val_as(ctx(object_id, old(used_elements), elements, address_space), *operand, as_type),'''),
    'compare_operands': ('r', '''        ensures *final(used_elements) == *old(used_elements),
            r is Ok ==> spec_value_of(ctx(object_id, old(used_elements), elements, address_space), *o1) is Ok
                && spec_value_of(ctx(object_id, old(used_elements), elements, address_space), *o2) is Ok,
            // integer and boolean operands: exactly the specified comparison; floating point: some comparison result
            match cmp_ops(ctx(object_id, old(used_elements), elements, address_space), *o1, *o2) {
                Err(e) => r == Err::<ComparisonResult, StatusCode>(e),
                Ok(c) => r is Ok && (r->Ok_0 == c || ({
                    let a = spec_value_of(ctx(object_id, old(used_elements), elements, address_space), *o1)->Ok_0;
                    let b = spec_value_of(ctx(object_id, old(used_elements), elements, address_space), *o2)->Ok_0;
                    conv2(a, b).0 is Double || conv2(a, b).0 is Float
                })),
            },'''),
    'is_null': ('r', '''        requires operands@.len() >= 1,
        ensures *final(used_elements) == *old(used_elements),
            r == sem_is_null(ctx(object_id, old(used_elements), elements, address_space), operands@),'''),
    'not': ('r', '''        requires operands@.len() >= 1,
        ensures *final(used_elements) == *old(used_elements),
            r == sem_not(ctx(object_id, old(used_elements), elements, address_space), operands@),'''),
    'and': ('r', CMP_ENS.replace('SEM', 'sem_and')),
    'or': ('r', CMP_ENS.replace('SEM', 'sem_or')),
    'like': ('r', '''        requires operands@.len() >= 2,
        ensures *final(used_elements) == *old(used_elements), r is Ok ==> r->Ok_0 is Boolean,'''),
    'bitwise_operation': ('r', '''        requires operands@.len() >= 2,
        ensures *final(used_elements) == *old(used_elements),'''),
    'bitwise_and': ('r', '''        requires operands@.len() >= 2,
        ensures *final(used_elements) == *old(used_elements),'''),
    'bitwise_or': ('r', '''        requires operands@.len() >= 2,
        ensures *final(used_elements) == *old(used_elements),'''),
    'between': ('r', '''        requires operands@.len() >= 3,
        ensures *final(used_elements) == *old(used_elements),
            floats_free(ctx(object_id, old(used_elements), elements, address_space), operands@) ==>
                r == sem_between(ctx(object_id, old(used_elements), elements, address_space), operands@),'''),
    'evaluate': ('r', '''        ensures *final(used_elements) == *old(used_elements),
            // total: too few operands is a status, for every operator
            (element.filter_operands is None || element.filter_operands->Some_0@.len() == 0) ==> r is Err,
            (element.filter_operands is Some && element.filter_operands->Some_0@.len() > 0) ==> ({
                let c = ctx(object_id, old(used_elements), elements, address_space);
                match spec_operands(element.filter_operands->Some_0@) {
                    Err(e) => r is Err,       // (which of several faults of a clause is reported is not part of the property)
                    Ok(ops) => if ops.len() < needed(element.filter_operator) { r is Err } else {
                        // every operator is evaluated by its own semantics
                        match element.filter_operator {
                            FilterOperator::Equals => floats_free(c, ops) ==> r == sem_eq(c, ops),
                            FilterOperator::GreaterThan => floats_free(c, ops) ==> r == sem_gt(c, ops),
                            FilterOperator::LessThan => floats_free(c, ops) ==> r == sem_lt(c, ops),
                            FilterOperator::GreaterThanOrEqual => floats_free(c, ops) ==> r == sem_gte(c, ops),
                            FilterOperator::LessThanOrEqual => floats_free(c, ops) ==> r == sem_lte(c, ops),
                            FilterOperator::Between => floats_free(c, ops) ==> r == sem_between(c, ops),
                            FilterOperator::IsNull => r == sem_is_null(c, ops),
                            FilterOperator::Not => r == sem_not(c, ops),
                            FilterOperator::And => r == sem_and(c, ops),
                            FilterOperator::Or => r == sem_or(c, ops),
                            FilterOperator::InView | FilterOperator::OfType | FilterOperator::RelatedTo => r is Err,
                            _ => true,
                        }
                    },
                }
            }),'''),
    'value_of': ('r', '''        ensures
            match *operand {
                Operand::LiteralOperand(o) => r == Ok::<Variant, StatusCode>(o.value),
                // not allowed in an event filter: a status, not a panic
                Operand::AttributeOperand(_) => r is Err,
                // outside the clause: a status, not a panic
                Operand::ElementOperand(o) => o.index as int >= elements@.len() ==> r is Err,
                _ => true,
            },'''),
}
for _n, _s in [('eq', 'sem_eq'), ('gt', 'sem_gt'), ('lt', 'sem_lt'), ('gte', 'sem_gte'), ('lte', 'sem_lte')]:
    SPEC[_n] = ('r', '''        requires operands@.len() >= 2,
        ensures *final(used_elements) == *old(used_elements),
            floats_free(ctx(object_id, old(used_elements), elements, address_space), operands@) ==>
                r == %s(ctx(object_id, old(used_elements), elements, address_space), operands@),''' % _s)

# variant 'term': every function of the evaluate / value_of cycle with the real bodies; contracts reduced to the frame (the set of
# used elements is the same afterwards) and a `decreases` measure: (elements not on the path yet, level of the function in the cycle)
TERM_LEVEL = {'evaluate': 4, 'eq': 3, 'gt': 3, 'lt': 3, 'gte': 3, 'lte': 3, 'like': 3, 'not': 3, 'between': 3, 'and': 3, 'or': 3, 'is_null': 3,
              'bitwise_and': 3, 'bitwise_or': 3, 'bitwise_operation': 2, 'compare_operands': 1, 'value_as': 1, 'value_of': 0}
TERM_ENV = '''
// value_of_simple_attribute: browse path lookup in the address space (no recursion into the filter)
#[verifier::external_body]
pub fn value_of_simple_attribute(object_id: &NodeId, o: &SimpleAttributeOperand, address_space: &AddressSpace) -> (r: Variant)
{ unimplemented!() }
'''
TERM_LEMMAS = '''
// putting an element of the clause on the path leaves fewer elements off it
proof fn lemma_free_insert(used: Set<u32>, n: nat)
    ensures forall|i: u32| (i as int) < n && !used.contains(i) ==> #[trigger] free(used.insert(i), n) < free(used, n),
{
    assert forall|i: u32| (i as int) < n && !used.contains(i) implies #[trigger] free(used.insert(i), n) < free(used, n) by {
        let r = vstd::set_lib::set_int_range(0, cap(n));
        vstd::set_lib::lemma_int_range(0, cap(n));
        let a = r.filter(|k: int| !used.contains(k as u32));
        let b = r.filter(|k: int| !used.insert(i).contains(k as u32));
        assert(a.contains(i as int));
        assert(b =~= a.remove(i as int)) by {
            assert forall|k: int| b.contains(k) == a.remove(i as int).contains(k) by {
                if r.contains(k) && k != i as int { assert((k as u32) != i); }
            }
        }
    }
}
'''

def term_contract(n):
    """frame + measure; the precondition on the number of operands is the one of the 'ops' variant"""
    req = re.search(r'^\s*requires [^\n]*\n', SPEC[n][1], re.M) if n in SPEC else None
    return ((req.group(0) if req else '')
            + '        ensures final(used_elements).set() == old(used_elements).set(),\n'
            + '        decreases free(old(used_elements).set(), elements@.len()), %dint,' % TERM_LEVEL[n])


FLOATS_FREE = '''
// the operands being compared do not end up as floating point values (for which only totality is proved)
pub open spec fn floats_free(c: Ctx, ops: Seq<Operand>) -> bool {
    forall|i: int, j: int| 0 <= i < ops.len() && 0 <= j < ops.len() ==>
        (spec_value_of(c, #[trigger] ops[i]) is Ok && spec_value_of(c, #[trigger] ops[j]) is Ok) ==> ({
            let a = spec_value_of(c, ops[i])->Ok_0;
            let b = spec_value_of(c, ops[j])->Ok_0;
            !(conv2(a, b).0 is Double) && !(conv2(a, b).0 is Float)
        })
}
'''

LEMMAS = '''
// Part 4 table 120 / 121 spot checks of the truth tables with NULL
proof fn lemma_truth_tables()
    ensures
        tri_and(Variant::Boolean(true), Variant::Empty) == Variant::Empty,
        tri_and(Variant::Boolean(false), Variant::Empty) == Variant::Boolean(false),
        tri_and(Variant::Empty, Variant::Empty) == Variant::Empty,
        tri_or(Variant::Boolean(true), Variant::Empty) == Variant::Boolean(true),
        tri_or(Variant::Boolean(false), Variant::Empty) == Variant::Empty,
        tri_not(Variant::Empty) == Variant::Empty,
        tri_not(Variant::Boolean(true)) == Variant::Boolean(false),
{
}
'''

CANARY = '''
proof fn canary_ops(c: Ctx, ops: Seq<Operand>)
    requires ops.len() == 3, floats_free(c, ops), sem_between(c, ops) == Ok::<Variant, StatusCode>(Variant::Boolean(true)),
    ensures false,
{}
'''

FROMS = [('bool', 'Boolean'), ('i8', 'SByte'), ('u8', 'Byte'), ('i16', 'Int16'), ('u16', 'UInt16'), ('i32', 'Int32'),
         ('u32', 'UInt32'), ('i64', 'Int64'), ('u64', 'UInt64')]


def macro_def(src, name):
    t, _ = src.item(r'^macro_rules! ' + name + r'\b', name='macro ' + name, with_attrs=False)
    return t


def build_variant(manifest, variant, pid):
    op = Src('server/events/operator.rs', manifest)
    va = Src('types/variant.rs', manifest)
    vt = Src('types/variant_type_id.rs', manifest)
    en = Src('types/service_types/enums.rs', manifest)
    od = Src('types/operand.rs', manifest)
    eo = Src('types/service_types/element_operand.rs', manifest)
    lo = Src('types/service_types/literal_operand.rs', manifest)
    cf = Src('types/service_types/content_filter_element.rs', manifest)
    froms = '\n'.join('''impl vstd::std_specs::convert::FromSpecImpl<%(t)s> for Variant {
    open spec fn obeys_from_spec() -> bool { true }
    open spec fn from_spec(v: %(t)s) -> Variant { Variant::%(v)s(v) }
}
impl From<%(t)s> for Variant { fn from(v: %(t)s) -> (r: Variant) { Variant::%(v)s(v) } }''' % dict(t=t, v=v) for t, v in FROMS)
    env = ENV.replace('FROM_IMPLS', froms)
    if variant in ('ops', 'term'):
        names = ['convert', 'value_as', 'compare_operands', 'is_null', 'eq', 'gt', 'lt', 'gte', 'lte', 'like', 'not', 'between',
                 'and', 'or', 'bitwise_operation', 'bitwise_and', 'bitwise_or', 'evaluate']
        if variant == 'term':
            names.append('value_of')
    else:
        names = ['value_of']
    f = {}
    for n in names:
        t = norm_vis(clean_fn(op.free_fn(n)))
        t = re.sub(r'^fn ', 'pub fn ', t, count=1)
        if variant == 'term' and n in TERM_LEVEL:
            t = splice_contract(t, term_contract(n), 'r')
            if n == 'value_of':
                t = splice_body_start(t, '    proof { lemma_free_insert(old(used_elements).set(), elements@.len() as nat); }')
            f[n] = t
        else:
            f[n] = splice_contract(t, SPEC[n][1], SPEC[n][0])
            if n == 'evaluate' and variant == 'ops':
                # the number of decoded operands is the number of operand objects, whether or not the code has decoded them yet
                f[n] = splice_body_start(f[n], '    proof { if element.filter_operands is Some { axiom_operands_len(element.filter_operands->Some_0@); } }')
    f['type_id'] = splice_contract(norm_vis(clean_fn(va.impl_fn(r'^impl Variant \{', 'type_id'))), SPEC['type_id'][1], 'r')
    f['precedence'] = splice_contract(norm_vis(clean_fn(vt.impl_fn(r'^impl VariantTypeId \{', 'precedence'))), SPEC['precedence'][1], 'r')
    types = '\n'.join([
        va.enum('Variant', derive=None).replace('    #[default]\n', ''),
        vt.enum('VariantTypeId'),
        en.enum('FilterOperator'),
        od.enum('Operand', derive=None),
        eo.struct('ElementOperand'), lo.struct('LiteralOperand'), cf.struct('ContentFilterElement'),
        op.enum('ComparisonResult'), op.enum('BitOperation'),
    ])
    types = re.sub(r'(?m)^enum ', 'pub enum ', types)     # D5: private items of the file become pub
    a = Asm()
    a.add('use vstd::prelude::*;\n' + macro_def(op, 'compare_values') + '\n' + macro_def(op, 'bitwise_operation') + '\nverus! {\nglobal size_of usize == 8;\n', 'prelude', 'env')
    a.add(norm_vis(types), 'types', 'env')
    a.add(status_code_struct(manifest), 'status codes', 'env')      # every status code of the real file (D14)
    a.add(env + FLOATS_FREE, 'env', 'env')
    a.add({'ops': VALUE_OF_ENV, 'rec': EVALUATE_ENV, 'term': TERM_ENV}[variant], 'env2', 'env')
    a.add('impl Variant {')
    a.add(f['type_id'], 'Variant::type_id', 'fn')
    a.add('}\nimpl VariantTypeId {')
    a.add(f['precedence'], 'VariantTypeId::precedence', 'fn')
    a.add('}')
    for n in names:
        a.add(f[n], n, 'fn')
    if variant == 'ops':
        add_proof_fns(a, LEMMAS, 'lemma')
        add_proof_fns(a, CANARY, 'canary')
    elif variant == 'term':
        add_proof_fns(a, TERM_LEMMAS, 'lemma')
        add_proof_fns(a, '''
proof fn canary_term(used: Set<u32>, n: nat, i: u32)
    requires (i as int) < n, !used.contains(i), n == 3,
    ensures false,
{}
''', 'canary')
    else:
        add_proof_fns(a, '''
proof fn canary_rec(o: Operand, n: int)
    requires o is ElementOperand, o->ElementOperand_0.index as int >= n, n == 4,
    ensures false,
{}
''', 'canary')
    a.add('}\nfn main() {}\n')
    return dict(asm=a, pid=pid, short={'ops': 'ops', 'rec': 'value_of', 'term': 'termination'}[variant], clauses={k: SPEC[k][1] for k in f}, twins={}, witness={},
                assumptions=['C39: Variant::convert is a function of (value, type) that returns the value itself for its own type and '
                             'otherwise a value of the target type or Empty (Part 4 table 118); #[derive(PartialEq)] on Variant is '
                             'structural on Boolean / Empty; From<scalar> for Variant wraps the value',
                             'C39: value_of is a deterministic function of the evaluation context that leaves the set of used elements '
                             'as it found it (it inserts and removes the same index); the two halves of the mutual recursion '
                             '(evaluate / value_of) are verified against each other\'s contract; TERMINATION of the recursion '
                             '(guarded by the used-elements set) is not proved',
                             'C39: operator::cast, operator::in_list, make_filter_operands, like_to_regex / Regex::is_match and '
                             'value_of_simple_attribute are environment (TryFrom on node ids, closures over mutable state, iterator '
                             'adapters, the regex crate, the address space): LIKE matching and Cast results are not under contract; '
                             'floating point comparisons are proved total only'])
