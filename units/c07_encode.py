"""C07 (chunking) — Verus unit: Chunker::encode, verbatim except for rewrite D16 (`data.chunks(n)` and the loop over
`data_chunks.enumerate()` become an index loop over the pieces of the slice).

Proved for every message size and chunk size limit: no panic (given a known security policy and sequence numbers that do
not run past u32::MAX), the encoded message is cut into ceil(len / body size) chunks whose bodies are the consecutive
pieces of the encoded bytes, chunk i carries sequence number first + i, all carry the request id and the message type,
the final flag is on the last chunk only; with no chunk size limit there is exactly one final chunk. Lemma: the bodies
concatenated in order are the encoded message again — which is what Chunker::decode (unit c07_decode) hands to the decoder."""
from extract import *

PID = 'C07'
SHORT = 'encode'

ENV = '''
pub struct SecureChannel { pub security_policy: SecurityPolicy, pub client: bool }
impl SecureChannel {
    pub fn security_policy(&self) -> (r: SecurityPolicy) ensures r == self.security_policy { self.security_policy }
    pub fn is_client_role(&self) -> (r: bool) ensures r == self.client { self.client }
}
pub struct NodeId { pub x: u64 }
pub struct SupportedMessage { pub x: u64 }
// the binary encoding of a message: node id of its encoding followed by the message (BinaryEncoder impls, generic over Write)
pub uninterp spec fn wire(m: SupportedMessage) -> Seq<u8>;
pub uninterp spec fn spec_byte_len(m: SupportedMessage) -> usize;
pub uninterp spec fn spec_node_len(m: SupportedMessage) -> usize;
pub uninterp spec fn spec_node_id(m: SupportedMessage) -> NodeId;
pub uninterp spec fn spec_message_type(m: SupportedMessage) -> MessageChunkType;
impl SupportedMessage {
    #[verifier::external_body]
    pub fn byte_len(&self) -> (r: usize) ensures r == spec_byte_len(*self), r <= 0x7fff_ffff { unimplemented!() }
    #[verifier::external_body]
    pub fn node_id(&self) -> (r: NodeId) ensures r == spec_node_id(*self) { unimplemented!() }
    // writes byte_len() bytes at the stream position
    #[verifier::external_body]
    pub fn encode(&self, stream: &mut Cursor) -> (r: Result<usize, StatusCode>)
        requires old(stream).node_written is Some,
        ensures final(stream).initial_len == old(stream).initial_len, final(stream).node_written == old(stream).node_written,
            r is Ok ==> final(stream).message_written == Some(*self),
    { unimplemented!() }
}
impl NodeId {
    #[verifier::external_body]
    pub fn byte_len(&self) -> (r: usize) ensures 1 <= r <= 0x7fff_ffff, forall|m: SupportedMessage| spec_node_id(m) == *self ==> r == spec_node_len(m) { unimplemented!() }
    #[verifier::external_body]
    pub fn encode(&self, stream: &mut Cursor) -> (r: Result<usize, StatusCode>)
        ensures final(stream).initial_len == old(stream).initial_len, final(stream).node_written == Some(*self),
            final(stream).message_written == old(stream).message_written,
    { unimplemented!() }
}
// std::io::Cursor<Vec<u8>> created over a zeroed vector of exactly the encoded size and filled by the two encoders
pub struct Cursor { pub initial_len: usize, pub node_written: Option<NodeId>, pub message_written: Option<SupportedMessage>, pub buf: Vec<u8> }
impl Cursor {
    #[verifier::external_body]
    pub fn new(v: Vec<u8>) -> (r: Cursor) ensures r.initial_len == v@.len(), r.node_written is None, r.message_written is None { unimplemented!() }
    // the encoders wrote node id and message, byte_len() bytes each, into the vector sized for exactly that
    #[verifier::external_body]
    pub fn into_inner(self) -> (r: Vec<u8>)
        ensures (self.message_written is Some && self.node_written == Some(spec_node_id(self.message_written->Some_0))
                 && self.initial_len == spec_byte_len(self.message_written->Some_0) + spec_node_len(self.message_written->Some_0))
            ==> r@ == wire(self.message_written->Some_0) && r@.len() == self.initial_len,
    { unimplemented!() }
}
pub struct MessageChunk { pub data: Vec<u8> }
// what ChunkInfo::new reads back from a chunk built by MessageChunk::new (header codecs: assumed to round-trip)
pub uninterp spec fn c_seq(c: MessageChunk) -> u32;
pub uninterp spec fn c_req(c: MessageChunk) -> u32;
pub uninterp spec fn c_type(c: MessageChunk) -> MessageChunkType;
pub uninterp spec fn c_final(c: MessageChunk) -> MessageIsFinalType;
pub uninterp spec fn c_body(c: MessageChunk) -> Seq<u8>;
// MessageChunk::body_size_from_message_size, as proved on the real function in unit c07_sizes (at least 8196 - 79 bytes)
pub uninterp spec fn spec_body_size(t: MessageChunkType, c: &SecureChannel, m: usize) -> Option<usize>;
impl MessageChunk {
    #[verifier::external_body]
    pub fn new(sequence_number: u32, request_id: u32, message_type: MessageChunkType, is_final: MessageIsFinalType,
               secure_channel: &SecureChannel, data: &[u8]) -> (r: Result<MessageChunk, StatusCode>)
        ensures r is Ok ==> c_seq(r->Ok_0) == sequence_number && c_req(r->Ok_0) == request_id && c_type(r->Ok_0) == message_type
            && c_final(r->Ok_0) == is_final && c_body(r->Ok_0) == data@,
    { unimplemented!() }
    #[verifier::external_body]
    pub fn body_size_from_message_size(message_type: MessageChunkType, secure_channel: &SecureChannel, message_size: usize) -> (r: Result<usize, ()>)
        ensures (r is Ok) == (spec_body_size(message_type, secure_channel, message_size) is Some),
            r is Ok ==> r->Ok_0 == spec_body_size(message_type, secure_channel, message_size)->Some_0 && r->Ok_0 > 0,
    { unimplemented!() }
}
impl Chunker {
    #[verifier::external_body]
    pub fn message_type(message: &SupportedMessage) -> (r: MessageChunkType) ensures r == spec_message_type(*message) { unimplemented!() }
}
// <[T]>::chunks(n) (rewrite D16): panics for n == 0; ceil(len / n) pieces; piece i is v[i*n .. min(i*n + n, len)]
pub struct ChunksIter<'a> { pub v: &'a Vec<u8>, pub n: usize }
pub open spec fn n_pieces(len: int, n: int) -> int { if len == 0 { 0 } else { (len - 1) / n + 1 } }
pub open spec fn piece(v: Seq<u8>, n: int, i: int) -> Seq<u8> { v.subrange(i * n, if i * n + n < v.len() { i * n + n } else { v.len() as int }) }
#[verifier::external_body]
pub fn slice_chunks<'a>(v: &'a Vec<u8>, n: usize) -> (r: ChunksIter<'a>)
    requires n > 0,
    ensures r.v == v, r.n == n,
{ unimplemented!() }
impl<'a> ChunksIter<'a> {
    #[verifier::external_body]
    pub fn len(&self) -> (r: usize) ensures r == n_pieces(self.v@.len() as int, self.n as int), r <= self.v@.len() { unimplemented!() }
    #[verifier::external_body]
    pub fn chunk_at(&self, i: usize) -> (r: &'a [u8])
        requires i < n_pieces(self.v@.len() as int, self.n as int),
        ensures r@ == piece(self.v@, self.n as int, i as int), i * self.n < self.v@.len(),
    { unimplemented!() }
}

// ---- specification
pub open spec fn well_chunked(cs: Seq<MessageChunk>, data: Seq<u8>, n: int, first: u32, request_id: u32, t: MessageChunkType) -> bool {
    &&& cs.len() == n_pieces(data.len() as int, n)
    &&& forall|i: int| 0 <= i < cs.len() ==> ({
        let c = #[trigger] cs[i];
        &&& c_body(c) == piece(data, n, i)
        &&& c_seq(c) == first + i
        &&& c_req(c) == request_id
        &&& c_type(c) == t
        &&& c_final(c) == (if i == cs.len() - 1 { MessageIsFinalType::Final } else { MessageIsFinalType::Intermediate })
    })
}
// the bodies of the first k chunks, concatenated in order
pub open spec fn bodies_upto(cs: Seq<MessageChunk>, k: int) -> Seq<u8>
    decreases k
{
    if k <= 0 { Seq::empty() } else { bodies_upto(cs, k - 1) + c_body(cs[k - 1]) }
}
'''

SPEC = {
    'encode': ('r', '''        requires secure_channel.security_policy != SecurityPolicy::Unknown,     // the function panics otherwise
            sequence_number + wire(*supported_message).len() <= u32::MAX,      // the sender's counter has not run out
        ensures
            (max_message_size > 0 && spec_byte_len(*supported_message) > max_message_size) ==> r is Err,
            r is Ok ==> ({
                let data = wire(*supported_message);
                let cs = r->Ok_0@;
                let t = spec_message_type(*supported_message);
                &&& data.len() == spec_byte_len(*supported_message) + spec_node_len(*supported_message)
                &&& if max_chunk_size > 0 {
                        spec_body_size(t, secure_channel, max_chunk_size) is Some
                            && well_chunked(cs, data, spec_body_size(t, secure_channel, max_chunk_size)->Some_0 as int, sequence_number, request_id, t)
                    } else {
                        // no limit: one final chunk holding everything
                        cs.len() == 1 && c_body(cs[0]) == data && c_seq(cs[0]) == sequence_number && c_req(cs[0]) == request_id
                            && c_type(cs[0]) == t && c_final(cs[0]) == MessageIsFinalType::Final
                    }
            }),'''),
}

LEMMAS = '''
// the pieces of a slice, concatenated in order, are the slice: after k pieces the first min(k*n, len) bytes
proof fn lemma_bodies_are_prefix(cs: Seq<MessageChunk>, data: Seq<u8>, n: int, first: u32, request_id: u32, t: MessageChunkType, k: int)
    requires n > 0, well_chunked(cs, data, n, first, request_id, t), 0 <= k <= cs.len(),
    ensures bodies_upto(cs, k) == data.subrange(0, if k * n < data.len() { k * n } else { data.len() as int }),
    decreases k,
{
    if k > 0 {
        lemma_bodies_are_prefix(cs, data, n, first, request_id, t, k - 1);
        assert((k - 1) * n + n == k * n) by (nonlinear_arith);
        assert((k - 1) * n < data.len()) by (nonlinear_arith)
            requires k - 1 < (data.len() - 1) / n + 1, n > 0, k >= 1, data.len() >= 1;
        let a = (k - 1) * n;
        let b = if a + n < data.len() { a + n } else { data.len() as int };
        assert(c_body(cs[k - 1]) == data.subrange(a, b));
        assert(data.subrange(0, a) + data.subrange(a, b) =~= data.subrange(0, b));
    } else {
        assert(0 * n == 0) by (nonlinear_arith);
        assert(bodies_upto(cs, 0) =~= data.subrange(0, 0));
    }
}
// C07: what the sender cut up is, put together again in order, the encoded message
proof fn lemma_chunks_reassemble(cs: Seq<MessageChunk>, data: Seq<u8>, n: int, first: u32, request_id: u32, t: MessageChunkType)
    requires n > 0, well_chunked(cs, data, n, first, request_id, t),
    ensures bodies_upto(cs, cs.len() as int) == data,
{
    lemma_bodies_are_prefix(cs, data, n, first, request_id, t, cs.len() as int);
    if data.len() > 0 {
        assert(((data.len() - 1) / n + 1) * n >= data.len()) by (nonlinear_arith)
            requires n > 0, data.len() >= 1;
    } else {
        assert(0 * n == 0) by (nonlinear_arith);
    }
    assert(data.subrange(0, data.len() as int) =~= data);
}
// an exact multiple of the body size gives len / n chunks, the last one full and final (no empty trailing chunk)
proof fn lemma_exact_multiple(len: int, n: int, q: int)
    requires n > 0, q >= 1, len == q * n,
    ensures n_pieces(len, n) == q,
{
    assert(q * n >= 1) by (nonlinear_arith)
        requires n > 0, q >= 1;
    assert((q * n - 1) / n == q - 1) by (nonlinear_arith)
        requires n > 0, q >= 1;
}
'''

CANARY = '''
proof fn canary_encode(cs: Seq<MessageChunk>, data: Seq<u8>, t: MessageChunkType)
    requires well_chunked(cs, data, 10, 5, 6, t), data.len() == 25,
    ensures false,
{}
'''


def build(manifest):
    ck = Src('core/comms/chunker.rs', manifest)
    mc = Src('core/comms/message_chunk.rs', manifest)
    sp = Src('crypto/security_policy.rs', manifest)
    rewrites = []
    f = norm_vis(clean_fn(ck.impl_fn(r'^impl Chunker \{', 'encode')))
    f = chunks_to_index_loop(f, rewrites)
    f = splice_contract(f, SPEC['encode'][1], 'r')
    f = splice_loop(f, 0, '''                    invariant 0 <= i <= data_chunks_len, data_chunks_len == n_pieces(data@.len() as int, max_body_per_chunk as int),
                        data_chunks.v == &data, data_chunks.n == max_body_per_chunk, max_body_per_chunk > 0,
                        data_chunks_len <= data@.len(), sequence_number + data@.len() <= u32::MAX,
                        message_type == spec_message_type(*supported_message),
                        chunks@.len() == i,
                        forall|k: int| 0 <= k < i ==> ({
                            let c = #[trigger] chunks@[k];
                            &&& c_body(c) == piece(data@, max_body_per_chunk as int, k)
                            &&& c_seq(c) == sequence_number + k
                            &&& c_req(c) == request_id
                            &&& c_type(c) == message_type
                            &&& c_final(c) == (if k == data_chunks_len - 1 { MessageIsFinalType::Final } else { MessageIsFinalType::Intermediate })
                        }),
                    decreases data_chunks_len - i,''')
    a = Asm()
    a.add('use vstd::prelude::*;\nverus! {\nglobal size_of usize == 8;\n', 'prelude', 'env')
    a.add(norm_vis(sp.enum('SecurityPolicy')) + '\n' + norm_vis(mc.enum('MessageChunkType')) + '\n' + norm_vis(mc.enum('MessageIsFinalType')), 'types', 'env')
    a.add(status_code_struct(manifest), 'status codes', 'env')      # every status code of the real file (D14)
    a.add('pub struct Chunker;\n' + ENV, 'env', 'env')
    a.add('impl Chunker {')
    a.add(f, 'encode', 'fn')
    a.add('}')
    add_proof_fns(a, LEMMAS, 'lemma')
    add_proof_fns(a, CANARY, 'canary')
    a.add('}\nfn main() {}\n')
    return dict(asm=a, pid=PID, short=SHORT, clauses={k: v[1] for k, v in SPEC.items()}, twins={}, witness={},
                assumptions=['C07: rewrite D16 — `data.chunks(n)` and the loop over `data_chunks.enumerate()` in Chunker::encode are replaced by '
                             'an index loop over the pieces of the slice (piece i = data[i*n .. min(i*n + n, len)], ceil(len / n) pieces)',
                             'C07: the binary encoders write exactly byte_len() bytes (node id, then message) into the vector sized for them; '
                             'MessageChunk::new writes headers that ChunkInfo::new reads back (header codec round trip) — generic I/O, assumed',
                             'C07: the sender\'s sequence counter does not run past u32::MAX (`sequence_number + i as u32` and the callers\' '
                             '`last_sent_sequence_number + 1` overflow there: Part 6 wants a wrap-around that is not implemented)'])
