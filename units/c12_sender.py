"""C12 (sender half, client side) — Verus unit: SendBuffer::write and SendBuffer::next_request_id
(client/transport/buffer.rs), verbatim, with Chunker::encode as environment carrying the contract proved for it in
unit c07_encode (chunk i of a message carries sequence number first + i and the request id).

Proved: the chunks of successive messages carry consecutive sequence numbers across messages (the first chunk of a message
follows the last chunk of the previous one), a refused message (encoder error, too many chunks, buffer busy) leaves the
counter and the queue unchanged, the chunks are queued in order behind what is already queued, and request ids handed
out by next_request_id increase by one."""
from extract import *

PID = 'C12'
SHORT = 'sender'

ENV = '''
use std::collections::VecDeque;
pub struct SecureChannel { pub x: u64 }
pub struct SupportedMessage { pub x: u64 }
pub struct MessageChunk { pub data: Vec<u8> }
pub struct Cursor<T> { pub inner: T, pub pos: u64 }
// sequence number and request id a chunk carries (what ChunkInfo::new reads back)
pub uninterp spec fn c_seq(c: MessageChunk) -> u32;
pub uninterp spec fn c_req(c: MessageChunk) -> u32;
pub struct Chunker;
impl Chunker {
    // Chunker::encode, contract as proved in unit c07_encode: at least one chunk, chunk i carries first + i and the request id
    #[verifier::external_body]
    pub fn encode(sequence_number: u32, request_id: u32, max_message_size: usize, max_chunk_size: usize,
                  secure_channel: &SecureChannel, supported_message: &SupportedMessage) -> (r: Result<Vec<MessageChunk>, StatusCode>)
        ensures r is Ok ==> 1 <= r->Ok_0@.len() <= 0x7fff_ffff     // no more chunks than the message has bytes
            && forall|i: int| 0 <= i < r->Ok_0@.len() ==> c_seq(#[trigger] r->Ok_0@[i]) == sequence_number + i && c_req(r->Ok_0@[i]) == request_id,
    { unimplemented!() }
}
// VecDeque::extend(vec.into_iter()): appends the elements in order
#[verifier::external_body]
pub fn deque_extend(q: &mut VecDeque<MessageChunk>, v: Vec<MessageChunk>)
    ensures final(q)@ == old(q)@ + v@,
{ unimplemented!() }
'''

SPEC = {
    'write': ('r', '''        requires old(self).last_sent_sequence_number < 0x7fff_ffff,     // the counter is far from running out (no wrap-around is implemented)
        ensures
            // refused: nothing changes
            r is Err ==> final(self).last_sent_sequence_number == old(self).last_sent_sequence_number
                && final(self).chunks@ == old(self).chunks@,
            (old(self).state is Reading) ==> r is Err,
            // accepted: the new chunks are queued behind the old ones, numbered on from the last number sent
            r is Ok ==> r->Ok_0 == request_id && ({
                let q0 = old(self).chunks@;
                let q1 = final(self).chunks@;
                let n = q1.len() - q0.len();
                &&& n >= 1 && q1.subrange(0, q0.len() as int) == q0
                &&& (old(self).max_chunk_count > 0 ==> n <= old(self).max_chunk_count)
                &&& final(self).last_sent_sequence_number == old(self).last_sent_sequence_number + n
                &&& forall|i: int| 0 <= i < n ==> c_seq(#[trigger] q1[q0.len() + i]) == old(self).last_sent_sequence_number + 1 + i
                        && c_req(q1[q0.len() + i]) == request_id
            }),
            final(self).last_request_id == old(self).last_request_id,'''),
    'next_request_id': ('r', '''        requires old(self).last_request_id < u32::MAX,
        ensures r == old(self).last_request_id + 1, final(self).last_request_id == r,
            final(self).last_sent_sequence_number == old(self).last_sent_sequence_number, final(self).chunks@ == old(self).chunks@,'''),
}

LEMMAS = '''
// C12 across messages: if message A is written and then message B, B's first chunk follows A's last chunk
proof fn lemma_messages_follow_on(last0: u32, na: int, nb: int)
    requires na >= 1, nb >= 1, last0 + na + nb <= u32::MAX,
    ensures ({
        let last_a = last0 + na;            // counter after A (contract of write)
        let first_b = last_a + 1;           // first chunk of B (contract of write)
        let last_chunk_a = last0 + 1 + (na - 1);
        first_b == last_chunk_a + 1
    }),
{
}
'''

CANARY = '''
proof fn canary_sender(s: SendBuffer)
    requires s.last_sent_sequence_number < 0x7fff_ffff, s.state is Writing, s.chunks@.len() == 2,
    ensures false,
{}
'''


def build(manifest):
    bf = Src('client/transport/buffer.rs', manifest)
    f = {}
    for n in ['write', 'next_request_id']:
        t = norm_vis(clean_fn(bf.impl_fn(r'^impl SendBuffer \{', n)))
        f[n] = splice_contract(t, SPEC[n][1], SPEC[n][0])
    # `self.chunks.extend(chunks.into_iter())`: Extend over an IntoIter is outside the dialect; the call is kept as a call of
    # an environment function with the same meaning (appends in order)
    w = f['write'].replace('self.chunks.extend(chunks.into_iter());', 'deque_extend(&mut self.chunks, chunks);')
    if w == f['write']:
        raise Undecided('lost anchor: self.chunks.extend(chunks.into_iter())')
    f['write'] = w
    types = '\n'.join([bf.enum('SendBufferState', derive='Copy, Clone'), bf.struct('SendBuffer')])
    types = re.sub(r'(?m)^enum ', 'pub enum ', types)
    a = Asm()
    a.add('#![feature(allocator_api)]\nuse vstd::prelude::*;\nverus! {\nglobal size_of usize == 8;\n', 'prelude', 'env')
    a.add(status_code_struct(manifest), 'status codes', 'env')      # every status code of the real file (D14)
    a.add(ENV, 'env', 'env')
    a.add(norm_vis(types), 'types', 'env')
    a.add('impl SendBuffer {')
    a.add(f['write'], 'SendBuffer::write', 'fn')
    a.add(f['next_request_id'], 'SendBuffer::next_request_id', 'fn')
    a.add('}')
    add_proof_fns(a, LEMMAS, 'lemma')
    add_proof_fns(a, CANARY, 'canary')
    a.add('}\nfn main() {}\n')
    return dict(asm=a, pid=PID, short=SHORT, clauses={k: v[1] for k, v in SPEC.items()}, twins={}, witness={},
                assumptions=['C12: Chunker::encode returns at least one chunk, chunk i carrying sequence number first + i and the request id '
                             '(proved for the real function in unit c07_encode, relative to MessageChunk::new writing what ChunkInfo::new reads)',
                             'C12: `VecDeque::extend(vec.into_iter())` appends in order (rewritten into a call of an environment function)',
                             'C12: the sender counters do not run past u32::MAX (no wrap-around is implemented; `+ 1` would overflow); '
                             'the server-side MessageWriter::write (same two lines around Chunker::encode, then a by-value loop over the '
                             'chunks) and request-id uniqueness across reconnects are not under contract'])
