"""C21 (delivery part) — the unit c22_actions (Subscription::handle_state_result, enqueue_notification, Handle::next) read for
C21: a notification message collected from the monitored items is never dropped, and queued messages carry strictly
increasing sequence numbers."""
from c22_actions import build as _build
def build(manifest):
    return _build(manifest, 'C21')
