"""C12 (receiver's counter) — Verus unit: TcpTransport::turn_received_chunks_into_message of the server, verbatim
(server/comms/tcp_transport.rs), with the repository's lock macro extracted as it is and Chunker::validate_chunks entering
with the contract proved for it in unit c12_validate.

Proved for every state of the counter and every list of chunks: no overflow (the next number is computed with checked_add; the
`+ 1` this replaces overflowed after a chunk numbered u32::MAX — fix 33145e27); a message is decoded only if it is acceptable
from `last + 1` on; the counter then holds the number of the message's last chunk, which is greater than it was; nothing is
accepted once the counter is at u32::MAX; a refused message leaves the counter as it was. Lemma over this contract: a message
that was accepted is refused when it is presented again — for every history, without a proviso about wrap-around."""
from extract import *

PID = 'C12'
SHORT = 'transport'

ENV = '''
pub struct SecureChannel { pub secure_channel_id: u32 }
pub struct MessageChunk { pub data: Vec<u8> }
pub struct SupportedMessage { pub x: u64 }
// ---- the contract of Chunker::validate_chunks, proved in unit c12_validate (same definitions)
pub uninterp spec fn spec_info(c: MessageChunk) -> Option<(u32, u32, u32)>;
pub open spec fn chan(c: MessageChunk) -> u32 { spec_info(c)->Some_0.0 }
pub open spec fn seq(c: MessageChunk) -> u32 { spec_info(c)->Some_0.1 }
pub open spec fn req(c: MessageChunk) -> u32 { spec_info(c)->Some_0.2 }
pub open spec fn acceptable(start: u32, channel_id: u32, chunks: Seq<MessageChunk>) -> bool {
    &&& forall|i: int| 0 <= i < chunks.len() ==> spec_info(#[trigger] chunks[i]) is Some
    &&& seq(chunks[0]) >= start
    &&& seq(chunks[0]) + chunks.len() - 1 <= 0xffff_ffff
    &&& forall|i: int| 0 <= i < chunks.len() ==> seq(#[trigger] chunks[i]) == seq(chunks[0]) + i
    &&& forall|i: int| 0 <= i < chunks.len() ==> req(#[trigger] chunks[i]) == req(chunks[0])
    &&& channel_id != 0 ==> forall|i: int| 0 <= i < chunks.len() ==> chan(#[trigger] chunks[i]) == channel_id
}
pub struct Chunker;
impl Chunker {
    #[verifier::external_body]
    pub fn validate_chunks(starting_sequence_number: u32, secure_channel: &SecureChannel, chunks: &[MessageChunk]) -> (r: Result<u32, StatusCode>)
        requires 1 <= chunks@.len() <= 0xffff_ffff,
        ensures (r is Ok) ==> acceptable(starting_sequence_number, secure_channel.secure_channel_id, chunks@),
            r is Ok ==> r->Ok_0 == seq(chunks@[0]) + chunks@.len() - 1 && r->Ok_0 == seq(chunks@[chunks@.len() - 1]) && r->Ok_0 >= starting_sequence_number,
    { unimplemented!() }
    // decoding of the chunks' bodies into a message: not looked into here
    #[verifier::external_body]
    pub fn decode(chunks: &[MessageChunk], secure_channel: &SecureChannel, expected_node_id: Option<u64>) -> (r: Result<SupportedMessage, StatusCode>)
    { unimplemented!() }
}
pub struct RwLock<T> { pub v: T }
pub struct Arc<T> { pub v: T }
impl Arc<RwLock<SecureChannel>> {
    // trace_read_lock!(x): access to the value the lock guards (single-threaded view)
    #[verifier::external_body]
    pub fn read(&self) -> (r: &SecureChannel) ensures *r == self.v.v { unimplemented!() }
}
'''

SPEC = {
    'turn_received_chunks_into_message': ('r', '''        requires 1 <= chunks@.len() <= 0xffff_ffff,     // called with the chunks of a completed message
        ensures ({
            let last0 = old(self).last_received_sequence_number;
            let id = old(self).secure_channel.v.v.secure_channel_id;
            // a message is decoded only if it is acceptable from last + 1 on (and never once the numbers are exhausted)
            &&& r is Ok ==> last0 < 0xffff_ffff && acceptable((last0 + 1) as u32, id, chunks@)
            // the counter only moves forward, and to the number of the last chunk of an acceptable message
            &&& final(self).last_received_sequence_number >= last0
            &&& final(self).last_received_sequence_number != last0 ==> last0 < 0xffff_ffff && acceptable((last0 + 1) as u32, id, chunks@)
                    && final(self).last_received_sequence_number == seq(chunks@[chunks@.len() - 1])
            &&& final(self).secure_channel == old(self).secure_channel
        }),'''),
}

LEMMAS = '''
// C12 replay, for every history: once a message was accepted (the counter is at least the number of its last chunk, and the counter
// never decreases), the same message is not acceptable again
proof fn lemma_replay_is_refused(last: u32, channel_id: u32, chunks: Seq<MessageChunk>)
    requires chunks.len() >= 1, spec_info(chunks[0]) is Some ==> last >= seq(chunks[0]),     // the counter has passed the message's first number
    ensures !(last < 0xffff_ffff && acceptable((last + 1) as u32, channel_id, chunks)),
{
}
'''

CANARY = '''
proof fn canary_transport(last: u32, channel_id: u32, chunks: Seq<MessageChunk>)
    requires last < 0xffff_ffff, acceptable((last + 1) as u32, channel_id, chunks), chunks.len() == 2,
    ensures false,
{}
'''


def macro_def(src, name):
    t, _ = src.item(r'^macro_rules! ' + name + r'\b', name='macro ' + name, with_attrs=False)
    return strip_line_comments(t)


def build(manifest):
    tt = Src('server/comms/tcp_transport.rs', manifest)
    lb = Src('lib.rs', manifest)
    t = norm_vis(clean_fn(tt.impl_fn(r'^impl TcpTransport \{', 'turn_received_chunks_into_message')))
    t = re.sub(r'^(\s*)fn ', r'\1pub fn ', t, count=1) if not re.match(r'\s*pub ', t) else t
    t = t.replace('std::result::Result<', 'Result<')
    f = splice_contract(t, SPEC['turn_received_chunks_into_message'][1], 'r')
    types = tt.struct('TcpTransport', keep_fields=['secure_channel', 'last_received_sequence_number'])
    a = Asm()
    a.add('use vstd::prelude::*;\n' + macro_def(lb, 'trace_read_lock') + '\nverus! {\nglobal size_of usize == 8;\n', 'prelude', 'env')
    a.add(status_code_struct(manifest), 'status codes', 'env')
    a.add(norm_vis(types), 'types', 'env')
    a.add(ENV, 'env', 'env')
    a.add('impl TcpTransport {')
    a.add(f, 'turn_received_chunks_into_message', 'fn')
    a.add('}')
    add_proof_fns(a, LEMMAS, 'lemma')
    add_proof_fns(a, CANARY, 'canary')
    a.add('}\nfn main() {}\n')
    return dict(asm=a, pid=PID, short=SHORT, clauses={k: v[1] for k, v in SPEC.items()}, twins={}, witness={},
                verus_args=['--triggers-mode', 'silent'],
                assumptions=['C12: Chunker::validate_chunks enters with the contract proved for the real function in unit c12_validate (the two '
                             'units declare the same `acceptable`); Chunker::decode is not looked into',
                             'C12: single-threaded view of the secure channel lock; the client transport (client/transport/core.rs) has the same '
                             'two statements and the same repair, it is not under contract (async state machine)',
                             'C12: both transports call the function with the chunks of a completed message (at least one chunk)'])
