"""C21 (pairing part) — Verus unit: how Subscriptions::tick pairs queued publish requests with notifications and turns the
pairs into publish responses, verbatim (server/subscriptions/subscriptions.rs): the `loop { .. }` statement that pairs and the
`while !self.transmission_queue.is_empty() { .. }` statement that answers (extraction D25, statement form: each becomes the
body of a function of its own), with the real Subscription::take_notification and Subscriptions::make_publish_response.

Proved for every state of the three queues: the pairing loop takes min(#requests, #notifications) pairs; the i-th pair is the
i-th OLDEST queued publish request with the subscription's i-th notification; every request it uses leaves the request queue
(so no request is answered twice) and the others stay where they were; pairs made earlier in the tick stay ahead of the new
ones. The answering loop empties the transmission queue oldest pair first and appends exactly one publish response per pair,
in that order, carrying the pair's request id, subscription id and notification message, and records the message for
retransmission. Lemma over the two contracts: the responses of one subscription answer the queued requests oldest first, each
with the next notification."""
from extract import *

PID = 'C21'
SHORT = 'pairing'

ENV = '''
use std::collections::VecDeque;
pub assume_specification<T, A: std::alloc::Allocator> [VecDeque::<T, A>::is_empty] (v: &VecDeque<T, A>) -> (r: bool)
    ensures r == (v@.len() == 0);
#[derive(Clone, Copy, PartialEq, Eq, Structural)]
pub struct DateTimeUtc { pub ticks: i64 }
#[derive(Clone, Copy, PartialEq, Eq, Structural)]
pub struct DateTime { pub ticks: i64 }
impl DateTime {
    #[verifier::external_body]
    pub fn from(d: DateTimeUtc) -> (r: DateTime) ensures r.ticks == d.ticks { unimplemented!() }
}
pub struct RequestHeader { pub request_handle: u32 }
pub struct ResponseHeader { pub request_handle: u32, pub service_result: StatusCode }
impl ResponseHeader {
    #[verifier::external_body]
    pub fn new_timestamped_service_result(timestamp: DateTime, request_header: &RequestHeader, service_result: StatusCode) -> (r: ResponseHeader)
        ensures r.request_handle == request_header.request_handle, r.service_result == service_result
    { unimplemented!() }
}
pub struct DiagnosticInfo { pub x: u64 }
pub struct SubscriptionAcknowledgement { pub subscription_id: u32, pub sequence_number: u32 }
pub struct NotificationMessage { pub sequence_number: u32, pub x: u64 }
impl Clone for NotificationMessage {
    // #[derive(Clone)]
    #[verifier::external_body]
    fn clone(&self) -> (r: Self) ensures r == *self { unimplemented!() }
}
// only "which response" matters here
pub enum SupportedMessage { PublishResponse(PublishResponse), Other(u64) }
impl vstd::std_specs::convert::FromSpecImpl<PublishResponse> for SupportedMessage {
    open spec fn obeys_from_spec() -> bool { true }
    open spec fn from_spec(v: PublishResponse) -> SupportedMessage { SupportedMessage::PublishResponse(v) }
}
impl From<PublishResponse> for SupportedMessage { fn from(v: PublishResponse) -> (r: SupportedMessage) { SupportedMessage::PublishResponse(v) } }
// std::collections::BTreeMap::insert (std semantics assumed)
#[verifier::external_body]
#[verifier::reject_recursive_types(K)]
#[verifier::reject_recursive_types(V)]
pub struct BTreeMap<K, V> { k: std::marker::PhantomData<K>, v: std::marker::PhantomData<V> }
impl<K, V> View for BTreeMap<K, V> { type V = Map<K, V>; uninterp spec fn view(&self) -> Map<K, V>; }
impl<K, V> BTreeMap<K, V> {
    #[verifier::external_body]
    pub fn insert(&mut self, k: K, v: V) -> (r: Option<V>) ensures final(self)@ == old(self)@.insert(k, v) { unimplemented!() }
}
impl Subscriptions {
    // iterator chains over the queues: read-only, results not looked into here
    #[verifier::external_body]
    pub fn more_notifications(&self, subscription_id: u32) -> (r: bool) { unimplemented!() }
    #[verifier::external_body]
    pub fn available_sequence_numbers(&self, subscription_id: u32) -> (r: Option<Vec<u32>>) { unimplemented!() }
}

// ---- specification
pub type Pair = (u32, PublishRequestEntry, NotificationMessage);
pub open spec fn min(a: int, b: int) -> int { if a <= b { a } else { b } }
// the response made for a pair: that request's id, that subscription, that message
pub open spec fn answers(r: PublishResponseEntry, p: Pair) -> bool {
    r.request_id == p.1.request_id && r.response is PublishResponse
        && r.response->PublishResponse_0.subscription_id == p.0 && r.response->PublishResponse_0.notification_message == p.2
        && r.response->PublishResponse_0.results == p.1.results
}
'''

SPEC = {
    'take_notification': ('r', '''        ensures match r {
                Some(n) => old(self).notifications@.len() > 0 && n == old(self).notifications@[0] && final(self).notifications@ == old(self).notifications@.subrange(1, old(self).notifications@.len() as int),
                None => old(self).notifications@.len() == 0 && final(self).notifications@ == old(self).notifications@,
            },'''),
    'make_publish_response': ('r', '''        ensures answers(r, (subscription_id, publish_request, notification_message)),'''),
    'pair_requests': (None, '''        ensures ({
            let rq = old(self).publish_request_queue@;          // front = newest, back = oldest
            let ns = old(subscription).notifications@;          // front = next to send
            let tq = old(self).transmission_queue@;
            let k = min(rq.len() as int, ns.len() as int);
            // the k oldest requests are used up, the others stay; k notifications are taken
            &&& final(self).publish_request_queue@ == rq.subrange(0, rq.len() - k)
            &&& final(subscription).notifications@ == ns.subrange(k, ns.len() as int)
            // pairs made earlier stay ahead (they are popped from the back first) ...
            &&& final(self).transmission_queue@.len() == tq.len() + k
            &&& final(self).transmission_queue@.subrange(k, tq.len() + k) == tq
            // ... and the i-th new pair is the i-th oldest request with the i-th notification
            &&& forall|i: int| 0 <= i < k ==> #[trigger] final(self).transmission_queue@[k - 1 - i] == (subscription_id, rq[rq.len() - 1 - i], ns[i])
            &&& final(self).publish_response_queue@ == old(self).publish_response_queue@
        }),'''),
    'send_paired': (None, '''        ensures ({
            let tq = old(self).transmission_queue@;
            let out = final(self).publish_response_queue@;
            let out0 = old(self).publish_response_queue@;
            &&& final(self).transmission_queue@.len() == 0
            &&& final(self).publish_request_queue@ == old(self).publish_request_queue@
            // one response per pair, oldest pair (back of the queue) first
            &&& out.len() == out0.len() + tq.len()
            &&& out.subrange(0, out0.len() as int) == out0
            &&& forall|j: int| 0 <= j < tq.len() ==> answers(#[trigger] out[out0.len() + j], tq[tq.len() - 1 - j])
        }),'''),
}

PAIR_LOOP = '''                invariant_except_break
                    self.publish_request_queue@ == rq.subrange(0, rq.len() - done),
                    subscription.notifications@ == ns.subrange(done, ns.len() as int),
                invariant 0 <= done <= rq.len(), done <= ns.len(),
                    self.publish_response_queue@ == old(self).publish_response_queue@,
                    self.transmission_queue@.len() == tq.len() + done,
                    self.transmission_queue@.subrange(done, tq.len() + done) == tq,
                    forall|i: int| 0 <= i < done ==> #[trigger] self.transmission_queue@[done - 1 - i] == (subscription_id, rq[rq.len() - 1 - i], ns[i]),
                ensures done == min(rq.len() as int, ns.len() as int),
                    self.publish_request_queue@ == rq.subrange(0, rq.len() - done),
                    subscription.notifications@ == ns.subrange(done, ns.len() as int),
                decreases rq.len() - done,'''
PAIR_HEAD = '''        let ghost rq = self.publish_request_queue@;
        let ghost ns = subscription.notifications@;
        let ghost tq = self.transmission_queue@;
        let ghost mut done: int = 0;'''
PAIR_BEFORE_PUSH = '''                        let ghost tb = self.transmission_queue@;'''
PAIR_AFTER_PUSH = '''                        proof {
                            // push_front shifts what was there by one
                            assert(self.transmission_queue@.len() == tb.len() + 1);
                            assert(forall|j: int| 0 <= j < tb.len() ==> self.transmission_queue@[j + 1] == tb[j]);
                            assert forall|i: int| 0 <= i < done + 1 implies #[trigger] self.transmission_queue@[done + 1 - 1 - i] == (subscription_id, rq[rq.len() - 1 - i], ns[i]) by {
                                if i < done { assert(self.transmission_queue@[(done - 1 - i) + 1] == tb[done - 1 - i]); }
                            }
                            done = done + 1;
                            assert(self.transmission_queue@.subrange(done, tq.len() + done) =~= tq);
                        }'''

SEND_LOOP = '''            invariant 0 <= sent <= tq.len(),
                self.publish_request_queue@ == old(self).publish_request_queue@,
                self.transmission_queue@ == tq.subrange(0, tq.len() - sent),
                self.publish_response_queue@.len() == out0.len() + sent,
                self.publish_response_queue@.subrange(0, out0.len() as int) == out0,
                forall|j: int| 0 <= j < sent ==> answers(#[trigger] self.publish_response_queue@[out0.len() + j], tq[tq.len() - 1 - j]),
            decreases tq.len() - sent,'''
SEND_HEAD = '''        let ghost tq = self.transmission_queue@;
        let ghost out0 = self.publish_response_queue@;
        let ghost mut sent: int = 0;'''
SEND_TAIL = '''            proof {
                sent = sent + 1;
                assert(self.publish_response_queue@.subrange(0, out0.len() as int) =~= out0);
            }'''

LEMMAS = '''
// C21, second sentence: with the transmission queue empty before (nothing paired yet in this tick), the responses made for one
// subscription answer the queued requests oldest first, the j-th of them with the subscription's j-th notification
proof fn lemma_oldest_first(rq: Seq<PublishRequestEntry>, ns: Seq<NotificationMessage>, sub: u32, tq: Seq<Pair>, out: Seq<PublishResponseEntry>, k: int)
    requires k == min(rq.len() as int, ns.len() as int), tq.len() == k,
        forall|i: int| 0 <= i < k ==> #[trigger] tq[k - 1 - i] == (sub, rq[rq.len() - 1 - i], ns[i]),      // pair_requests on an empty transmission queue
        out.len() == k, forall|j: int| 0 <= j < k ==> answers(#[trigger] out[j], tq[k - 1 - j]),           // send_paired on an empty response queue
    ensures forall|j: int| 0 <= j < k ==> (#[trigger] out[j]).request_id == rq[rq.len() - 1 - j].request_id
            && out[j].response->PublishResponse_0.notification_message == ns[j]
            && out[j].response->PublishResponse_0.subscription_id == sub,
{
    assert forall|j: int| 0 <= j < k implies (#[trigger] out[j]).request_id == rq[rq.len() - 1 - j].request_id
            && out[j].response->PublishResponse_0.notification_message == ns[j]
            && out[j].response->PublishResponse_0.subscription_id == sub by {
        assert(answers(out[j], tq[k - 1 - j]));
        assert(tq[k - 1 - j] == (sub, rq[rq.len() - 1 - j], ns[j]));
    }
}
'''

CANARY = '''
proof fn canary_pairing(rq: Seq<PublishRequestEntry>, ns: Seq<NotificationMessage>, r: PublishResponseEntry, p: Pair)
    requires answers(r, p), rq.len() == 2, ns.len() == 3, min(rq.len() as int, ns.len() as int) == 2,
    ensures false,
{}
'''


def build(manifest):
    su = Src('server/subscriptions/subscriptions.rs', manifest)
    sb = Src('server/subscriptions/subscription.rs', manifest)
    sm = Src('server/subscriptions/mod.rs', manifest)
    pr = Src('types/service_types/publish_response.rs', manifest)
    rq = Src('types/service_types/publish_request.rs', manifest)
    tick = norm_vis(clean_fn(su.impl_fn(r'^impl Subscriptions \{', 'tick')))
    pair = stmt_block(tick, r'^\s*loop \{')
    send = stmt_block(tick, r'^\s*while !self\.transmission_queue\.is_empty\(\) \{')
    f = {}
    g = '    pub fn pair_requests(&mut self, subscription: &mut Subscription, subscription_id: u32)\n    {\n' + pair + '    }\n'
    g = splice_contract(g, SPEC['pair_requests'][1], None)
    g = splice_loop(g, 0, PAIR_LOOP)
    g = splice_body_start(g, PAIR_HEAD)
    if re.search(r'^\s*self\.transmission_queue\.push_front\(\(\s*$', g, re.M) and re.search(r'^\s*\)\);\s*$', g, re.M):
        g = splice_at(g, r'^\s*self\.transmission_queue\.push_front\(\(\s*$', PAIR_BEFORE_PUSH, before=True)
        g = splice_at(g, r'^\s*\)\);\s*$', PAIR_AFTER_PUSH, before=False)
    f['pair_requests'] = '    #[verifier::allow_complex_invariants]\n    #[verifier::loop_isolation(false)]\n' + g
    h = '    pub fn send_paired(&mut self, now: &DateTimeUtc)\n    {\n' + send + '    }\n'
    h = splice_contract(h, SPEC['send_paired'][1], None)
    h = splice_loop(h, 0, SEND_LOOP)
    h = splice_body_start(h, SEND_HEAD)
    if re.search(r'^\s*self\.publish_response_queue\.push_back\(response\);', h, re.M):
        h = splice_at(h, r'^\s*self\.publish_response_queue\.push_back\(response\);', SEND_TAIL, before=False)
    f['send_paired'] = '    #[verifier::loop_isolation(false)]\n' + h
    t = norm_vis(clean_fn(sb.impl_fn(r'^impl Subscription \{', 'take_notification')))
    f['take_notification'] = splice_contract(t, SPEC['take_notification'][1], 'r')
    m = norm_vis(clean_fn(su.impl_fn(r'^impl Subscriptions \{', 'make_publish_response')))
    m = re.sub(r'^(\s*)fn ', r'\1pub fn ', m, count=1) if not re.match(r'\s*pub ', m) else m
    f['make_publish_response'] = splice_contract(m, SPEC['make_publish_response'][1], 'r')
    types = '\n'.join([
        rq.struct('PublishRequest'), pr.struct('PublishResponse'),
        sm.struct('PublishRequestEntry'), sm.struct('PublishResponseEntry'),
        sb.struct('Subscription', keep_fields=['notifications']),
        su.struct('Subscriptions', keep_fields=['publish_request_queue', 'publish_response_queue', 'transmission_queue', 'retransmission_queue']),
    ])
    a = Asm()
    a.add('#![feature(allocator_api)]\nuse vstd::prelude::*;\nverus! {\nglobal size_of usize == 8;\n', 'prelude', 'env')
    a.add(status_code_struct(manifest), 'status codes', 'env')
    a.add(norm_vis(types), 'types', 'env')
    a.add(ENV, 'env', 'env')
    a.add('impl Subscription {')
    a.add(f['take_notification'], 'take_notification', 'fn')
    a.add('}\nimpl Subscriptions {')
    a.add(f['make_publish_response'], 'make_publish_response', 'fn')
    a.add(f['pair_requests'], 'tick.pair_requests', 'fn')
    a.add(f['send_paired'], 'tick.send_paired', 'fn')
    a.add('}')
    add_proof_fns(a, LEMMAS, 'lemma')
    add_proof_fns(a, CANARY, 'canary')
    a.add('}\nfn main() {}\n')
    return dict(asm=a, pid=PID, short=SHORT, clauses={k: v[1] for k, v in SPEC.items()}, twins={}, witness={},
                verus_args=['--triggers-mode', 'silent'],
                assumptions=['C21: extraction D25 (statement form) — the `loop { .. }` that pairs requests with notifications and the '
                             '`while !self.transmission_queue.is_empty() { .. }` that answers are verified as bodies of functions of their own; '
                             'that tick runs the first once per subscription in priority order (C27) and the second once afterwards, and that '
                             'enqueue_publish_request puts a new request at the FRONT of the request queue (push_front: one line, so the back is the '
                             'oldest) is read off the text, not proved',
                             'C21: more_notifications / available_sequence_numbers (iterator chains) are read-only and not looked into; '
                             'ResponseHeader::new_timestamped_service_result, DateTime::from, BTreeMap::insert, #[derive(Clone)] on '
                             'NotificationMessage carry their evident meaning; that the response queue is handed to the transport in order '
                             '(take_publish_responses) is not under contract'])
