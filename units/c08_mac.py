from c09_receive import build_variant
def build(manifest):
    return build_variant(manifest, 'mac', 'C08')
