"""C34 — Verus unit: what the node management service does to the address space, verbatim
(server/services/node_management.rs): NodeManagementService::{add_node, add_reference, delete_node, delete_reference}
(rewrite D26: the text made by `format!` is left unspecified), over an environment AddressSpace whose view is the set of node ids
and the set of (source, type, target) references, with the contracts of its operations as assumed here (AddressSpace::delete's
is the one proved under C29).

Proved for every address space, session and request item:
AddNodes answering Good: the returned id was not a node before, is one now, no other node appeared or disappeared, the given
parent references it with the given reference type, and no reference was removed; any other answer: nodes and references
are exactly as before. AddReferences answering Good: exactly the requested reference (in the requested direction) was
added; otherwise nothing changed. DeleteNodes answering anything but Good: nothing changed; Good: the node is gone,
nothing was added. DeleteReferences answering anything but Good: nothing changed; Good: no node changed and nothing but the
named reference (both directions when asked for) is missing. A server-assigned id never is the id of an existing node.
No call can reach the panics of AddressSpace::insert (unregistered namespace) or insert_reference (self reference)."""
from extract import *

PID = 'C34'
SHORT = 'nodes'

ENV = '''
// a node id: namespace index and identifier (the identifier's four forms are not distinguished here)
#[derive(Debug, PartialEq, Eq, Structural)]
pub struct NodeId { pub namespace: u16, pub identifier: u64 }
impl Clone for NodeId {
    // #[derive(Clone)]
    fn clone(&self) -> (r: Self) ensures r == *self { NodeId { namespace: self.namespace, identifier: self.identifier } }
}
pub uninterp spec fn spec_null_id() -> NodeId;
// the reference type a node id names, if it names one (NodeId::as_reference_type_id), and back (Into<NodeId>)
#[derive(Debug, Clone, Copy, PartialEq, Eq, Structural)]
pub struct ReferenceTypeId { pub x: u32 }
pub uninterp spec fn type_id(t: ReferenceTypeId) -> NodeId;
pub uninterp spec fn spec_as_reference_type(n: NodeId) -> Option<ReferenceTypeId>;
pub uninterp spec fn spec_has_type_definition() -> NodeId;
impl NodeId {
    #[verifier::external_body]
    pub fn null() -> (r: NodeId) ensures r == spec_null_id() { unimplemented!() }
    #[verifier::external_body]
    pub fn is_null(&self) -> (r: bool) ensures r == (*self == spec_null_id()) { unimplemented!() }
    #[verifier::external_body]
    pub fn as_reference_type_id(&self) -> (r: Result<ReferenceTypeId, ()>)
        ensures match r { Ok(t) => spec_as_reference_type(*self) == Some(t) && type_id(t) == *self, Err(_) => spec_as_reference_type(*self) is None }
    { unimplemented!() }
    // types/node_id.rs: a global counter; nothing is known about the number except the namespace
    #[verifier::external_body]
    pub fn next_numeric(namespace: u16) -> (r: NodeId) ensures r.namespace == namespace { unimplemented!() }
}
#[verifier::external_body]
pub struct UAString { x: u64 }
impl UAString {
    #[verifier::external_body] pub fn is_null(&self) -> (r: bool) { unimplemented!() }
    #[verifier::external_body] pub fn is_empty(&self) -> (r: bool) { unimplemented!() }
    #[verifier::external_body] pub fn as_ref(&self) -> (r: &str) { unimplemented!() }
}
pub struct QualifiedName { pub namespace_index: u16, pub name: UAString }
impl QualifiedName {
    #[verifier::external_body] pub fn is_null(&self) -> (r: bool) { unimplemented!() }
}
impl Clone for QualifiedName { #[verifier::external_body] fn clone(&self) -> (r: Self) { unimplemented!() } }
pub struct ExtensionObject { pub x: u64 }
pub struct DecodingOptions { pub x: u64 }
impl ExpandedNodeId {
    // expanded_node_id.rs: the node id is null (and no namespace uri is given)
    pub uninterp spec fn spec_is_null(&self) -> bool;
    #[verifier::external_body]
    pub fn is_null(&self) -> (r: bool) ensures r == self.spec_is_null() { unimplemented!() }
}
pub struct Session { pub can_modify_address_space: bool }
impl Session {
    pub fn can_modify_address_space(&self) -> (r: bool) ensures r == self.can_modify_address_space { self.can_modify_address_space }
}
#[verifier::external_body]
pub struct NodeType { x: u64 }
impl NodeType {
    pub uninterp spec fn id(&self) -> NodeId;
    #[verifier::external_body] pub fn node_class(&self) -> (r: NodeClass) { unimplemented!() }
}
#[verifier::external_body]
pub struct RelativePath { x: u64 }
pub struct Resolver { pub x: u64 }
pub struct RelativePathElement { pub x: u64 }
impl RelativePathElement {
    #[allow(non_upper_case_globals)]
    pub const default_node_resolver: Resolver = Resolver { x: 0 };
}
impl RelativePath {
    #[verifier::external_body]
    pub fn from_str(path: &String, node_resolver: &Resolver) -> (r: Result<RelativePath, ()>) { unimplemented!() }
}
// rewrite D26: the text format! makes
#[verifier::external_body]
pub fn format_text() -> (r: String) { unimplemented!() }
// address_space/relative_path.rs: read-only search below a node
#[verifier::external_body]
pub fn find_nodes_relative_path(address_space: &AddressSpace, node_id: &NodeId, relative_path: &RelativePath) -> (r: Result<Vec<NodeId>, StatusCode>) { unimplemented!() }

// ---- the address space: its node ids and its references (source, type, target)
pub type Triple = (NodeId, NodeId, NodeId);
#[verifier::external_body]
pub struct AddressSpace { x: u64 }
pub open spec fn triple_of(id: NodeId, r: (&NodeId, &ReferenceTypeId, ReferenceDirection)) -> Triple {
    match r.2 { ReferenceDirection::Forward => (id, type_id(*r.1), *r.0), ReferenceDirection::Inverse => (*r.0, type_id(*r.1), id) }
}
impl AddressSpace {
    pub uninterp spec fn nodes(&self) -> Set<NodeId>;
    pub uninterp spec fn refs(&self) -> Set<Triple>;
    pub uninterp spec fn ns_exists(&self, ns: u16) -> bool;
    pub open spec fn same_as(&self, other: &AddressSpace) -> bool { self.nodes() == other.nodes() && self.refs() == other.refs() }

    #[verifier::external_body]
    pub fn namespace_exists(&self, namespace: u16) -> (r: bool) ensures r == self.ns_exists(namespace) { unimplemented!() }
    // the namespace for server-assigned ids is a registered one
    #[verifier::external_body]
    pub fn internal_namespace(&self) -> (r: u16) ensures self.ns_exists(r) { unimplemented!() }
    #[verifier::external_body]
    pub fn node_exists(&self, node_id: &NodeId) -> (r: bool) ensures r == self.nodes().contains(*node_id) { unimplemented!() }
    #[verifier::external_body]
    pub fn find_node(&self, node_id: &NodeId) -> (r: Option<&NodeType>) ensures (r is Some) == self.nodes().contains(*node_id) { unimplemented!() }
    // a type definition is valid for Object / Variable only if it is an existing (type) node
    #[verifier::external_body]
    pub fn is_valid_type_definition(&self, node_class: NodeClass, type_definition: &NodeId) -> (r: bool)
        ensures (r && (node_class == NodeClass::Object || node_class == NodeClass::Variable)) ==> self.nodes().contains(*type_definition)
    { unimplemented!() }
    // AddressSpace::insert: panics for an unregistered namespace; false and no change when the id is taken; otherwise the node
    // and the references handed in (Forward: node -> target, Inverse: target -> node) are added
    #[verifier::external_body]
    pub fn insert(&mut self, node: NodeType, references: Option<&[(&NodeId, &ReferenceTypeId, ReferenceDirection)]>) -> (r: bool)
        requires old(self).ns_exists(node.id().namespace),
        ensures r == !old(self).nodes().contains(node.id()),
            !r ==> final(self).same_as(old(self)),
            r ==> final(self).nodes() == old(self).nodes().insert(node.id()),
            r ==> forall|t: Triple| #![trigger final(self).refs().contains(t)] final(self).refs().contains(t) == (old(self).refs().contains(t)
                || (references is Some && exists|i: int| 0 <= i < references->Some_0@.len() && t == triple_of(node.id(), #[trigger] references->Some_0@[i]))),
            (r && references is Some) ==> forall|i: int| 0 <= i < references->Some_0@.len() ==> final(self).refs().contains(triple_of(node.id(), #[trigger] references->Some_0@[i])),
            (r && references is Some && references->Some_0@.len() >= 1) ==> final(self).refs().contains(triple_of(node.id(), references->Some_0@[0])),     // (the instance i == 0)
            forall|ns: u16| final(self).ns_exists(ns) == old(self).ns_exists(ns),
    { unimplemented!() }
    // set_node_type = insert_reference(node, type, HasTypeDefinition); insert_reference panics on a self reference
    #[verifier::external_body]
    pub fn set_node_type(&mut self, node_id: &NodeId, node_type: NodeId)
        requires *node_id != node_type,
        ensures final(self).nodes() == old(self).nodes(), final(self).refs() == old(self).refs().insert((*node_id, spec_has_type_definition(), node_type)),
    { unimplemented!() }
    #[verifier::external_body]
    pub fn has_reference(&self, source_node: &NodeId, target_node: &NodeId, reference_type: ReferenceTypeId) -> (r: bool)
        ensures r == self.refs().contains((*source_node, type_id(reference_type), *target_node))
    { unimplemented!() }
    #[verifier::external_body]
    pub fn insert_reference(&mut self, source_node: &NodeId, target_node: &NodeId, reference_type: ReferenceTypeId)
        requires *source_node != *target_node,
        ensures final(self).nodes() == old(self).nodes(), final(self).refs() == old(self).refs().insert((*source_node, type_id(reference_type), *target_node)),
    { unimplemented!() }
    // AddressSpace::delete (contract proved under C29, plus: false means nothing was there to delete)
    #[verifier::external_body]
    pub fn delete(&mut self, node_id: &NodeId, delete_target_references: bool) -> (r: bool)
        ensures !final(self).nodes().contains(*node_id), final(self).nodes().subset_of(old(self).nodes()), final(self).refs().subset_of(old(self).refs()),
            old(self).nodes().contains(*node_id) ==> r,
            !r ==> final(self).same_as(old(self)),
    { unimplemented!() }
    // References::delete_reference (C28): exactly that reference goes
    #[verifier::external_body]
    pub fn delete_reference(&mut self, node_id: &NodeId, target_node_id: &NodeId, reference_type_id: ReferenceTypeId) -> (r: bool)
        ensures final(self).nodes() == old(self).nodes(), final(self).refs() == old(self).refs().remove((*node_id, type_id(reference_type_id), *target_node_id)),
    { unimplemented!() }
}
impl NodeManagementService {
    // builds the node of the requested class from the attributes, WITH THE ID HANDED IN (Object::from_attributes(node_id, ..) etc.)
    #[verifier::external_body]
    pub fn create_node(node_id: &NodeId, node_class: NodeClass, browse_name: QualifiedName, node_attributes: &ExtensionObject,
        decoding_options: &DecodingOptions) -> (r: Result<NodeType, StatusCode>)
        ensures r is Ok ==> r->Ok_0.id() == *node_id
    { unimplemented!() }
}
pub struct NodeManagementService;
'''

SPEC = {
    'add_node': ('r', '''        ensures
            r.0 == StatusCode::Good ==> ({
                &&& !old(address_space).nodes().contains(r.1)                        // a new node: never the id of an existing one
                &&& final(address_space).nodes() == old(address_space).nodes().insert(r.1)
                &&& spec_as_reference_type(item.reference_type_id) is Some
                // referenced from the given parent with the given reference type
                &&& final(address_space).refs().contains((item.parent_node_id.node_id, item.reference_type_id, r.1))
                &&& old(address_space).refs().subset_of(final(address_space).refs())
            }),
            // a Bad answer: the item changed nothing
            r.0 != StatusCode::Good ==> final(address_space).same_as(old(address_space)),'''),
    'add_reference': ('r', '''        ensures
            r == StatusCode::Good ==> ({
                &&& final(address_space).nodes() == old(address_space).nodes()
                &&& final(address_space).refs() == old(address_space).refs().insert(
                        if item.is_forward { (item.source_node_id, item.reference_type_id, item.target_node_id.node_id) }
                        else { (item.target_node_id.node_id, item.reference_type_id, item.source_node_id) })
            }),
            r != StatusCode::Good ==> final(address_space).same_as(old(address_space)),'''),
    'delete_node': ('r', '''        ensures
            r == StatusCode::Good ==> !final(address_space).nodes().contains(item.node_id)
                && final(address_space).nodes().subset_of(old(address_space).nodes()) && final(address_space).refs().subset_of(old(address_space).refs()),
            r != StatusCode::Good ==> final(address_space).same_as(old(address_space)),'''),
    'delete_reference': ('r', '''        ensures
            r == StatusCode::Good ==> ({
                let fwd = (item.source_node_id, item.reference_type_id, item.target_node_id.node_id);
                let bwd = (item.target_node_id.node_id, item.reference_type_id, item.source_node_id);
                &&& final(address_space).nodes() == old(address_space).nodes()
                &&& final(address_space).refs().subset_of(old(address_space).refs())
                // nothing but the named reference is missing
                &&& forall|t: Triple| #[trigger] old(address_space).refs().contains(t) && !final(address_space).refs().contains(t) ==>
                        (t == fwd && (item.is_forward || item.delete_bidirectional)) || (t == bwd && (!item.is_forward || item.delete_bidirectional))
            }),
            r != StatusCode::Good ==> final(address_space).same_as(old(address_space)),'''),
}

CANARY = '''
proof fn canary_nodes(a: AddressSpace, b: AddressSpace, n: NodeId)
    requires b.nodes() == a.nodes().insert(n), !a.nodes().contains(n), a.refs().subset_of(b.refs()),
    ensures false,
{}
'''


def build(manifest):
    nm = Src('server/services/node_management.rs', manifest)
    en = Src('types/service_types/enums.rs', manifest)
    ex = Src('types/expanded_node_id.rs', manifest)
    rf = Src('server/address_space/references.rs', manifest)
    rewrites = []
    f = {}
    for n in ['add_node', 'add_reference', 'delete_node', 'delete_reference']:
        t = norm_vis(clean_fn(nm.impl_fn(r'^impl NodeManagementService \{', n)))
        t = re.sub(r'^(\s*)fn ', r'\1pub fn ', t, count=1) if not re.match(r'\s*pub ', t) else t
        t = format_to_env(t, rewrites)
        t = t.replace('relative_path::find_nodes_relative_path', 'find_nodes_relative_path')      # D8 path normalisation
        f[n] = splice_contract(t, SPEC[n][1], SPEC[n][0])
    # the search for a free id need not terminate for the verifier (a counter against a finite set of nodes); totality of that
    # loop is not part of the property
    if re.search(r'^\s*while\b', f['add_node'], re.M):       # the search for a free id, when there is one
        f['add_node'] = splice_loop(f['add_node'], 0, '                    invariant address_space.ns_exists(new_node_id.namespace),')
    f['add_node'] = '    #[verifier::exec_allows_no_decreases_clause]\n    #[verifier::loop_isolation(false)]\n' + f['add_node']
    items = []
    for fn_, st_ in [('add_nodes_item', 'AddNodesItem'), ('add_references_item', 'AddReferencesItem'),
                     ('delete_nodes_item', 'DeleteNodesItem'), ('delete_references_item', 'DeleteReferencesItem')]:
        items.append(Src('types/service_types/%s.rs' % fn_, manifest).struct(st_))
    types = '\n'.join([en.enum('NodeClass'), rf.enum('ReferenceDirection'), ex.struct('ExpandedNodeId')] + items)
    a = Asm()
    a.add('use vstd::prelude::*;\nverus! {\nglobal size_of usize == 8;\n', 'prelude', 'env')
    a.add(norm_vis(types), 'types', 'env')
    a.add(status_code_struct(manifest), 'status codes', 'env')      # every status code of the real file (D14)
    a.add(ENV, 'env', 'env')
    a.add('impl NodeManagementService {')
    for n in ['add_node', 'add_reference', 'delete_node', 'delete_reference']:
        a.add(f[n], n, 'fn')
    a.add('}')
    add_proof_fns(a, CANARY, 'canary')
    a.add('}\nfn main() {}\n')
    return dict(asm=a, pid=PID, short=SHORT, clauses={k: v[1] for k, v in SPEC.items()}, twins={}, witness={},
                verus_args=['--triggers-mode', 'silent'],
                assumptions=['C34: the AddressSpace is an environment type seen through its node ids and references; the contracts of insert '
                             '(false and no change for an id in use; node plus the references handed in otherwise; panics for an unregistered '
                             'namespace), set_node_type / insert_reference (one reference added; panic on a self reference), has_reference, '
                             'node_exists, find_node, delete_reference (C28) are ASSUMED here, read off address_space.rs / references.rs; '
                             'AddressSpace::delete is the contract proved under C29 plus "false means nothing was there"',
                             'C34: NodeManagementService::create_node builds the node with the id handed in; NodeId::as_reference_type_id and '
                             'Into<NodeId> for ReferenceTypeId are inverse; the namespace for server-assigned ids is registered',
                             'C34: rewrite D26 (format! text unspecified); RelativePath::from_str and find_nodes_relative_path are read-only and '
                             'unspecified (duplicate browse names: not decided here); termination of the free-id search is not proved',
                             'C34: the service functions add_nodes / add_references / delete_nodes / delete_references (locks, one call of these '
                             'functions per item, results in order) are not under contract; timestamps (last_modified) are not part of the view'])
