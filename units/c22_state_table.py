"""C22 — Verus unit over the real state-table function `Subscription::update_state` and its helpers,
extracted verbatim from lib/src/server/subscriptions/subscription.rs."""
from extract import *

PID = 'C22'
SHORT = 'state_table'
FIELDS = ['max_lifetime_counter', 'max_keep_alive_counter', 'state', 'lifetime_counter', 'keep_alive_counter',
          'first_message_sent', 'publishing_enabled']

SPEC = {
    'new': ('r', '''        ensures r.handled_state == handled_state, r.update_state_action == update_state_action,'''),
    'reset_keep_alive_counter': (None, '''        ensures *final(self) == (Subscription { keep_alive_counter: old(self).max_keep_alive_counter, ..*old(self) }),'''),
    'reset_lifetime_counter': (None, '''        ensures *final(self) == (Subscription { lifetime_counter: old(self).max_lifetime_counter, ..*old(self) }),'''),
    'start_publishing_timer': (None, '''        requires old(self).lifetime_counter >= 1,
        ensures *final(self) == (Subscription { lifetime_counter: (old(self).lifetime_counter - 1) as u32, ..*old(self) }),'''),
    'update_state': ('r', '''        requires
            inv(*old(self)),
            // the caller (Subscription::tick) never reports an expired timer together with a received request
            !(tick_reason == TickReason::ReceivePublishRequest && p.publishing_timer_expired),
        ensures
            inv(*final(self)),
            frame(*old(self), *final(self)),
            // --- expiry: exactly when the lifetime budget is used up, never before
            (r.update_state_action == UpdateStateAction::SubscriptionExpired) <==> (alive(*old(self)) && old(self).lifetime_counter == 1),
            r.update_state_action == UpdateStateAction::SubscriptionExpired ==> final(self).state == SubscriptionState::Closed,
            final(self).state == SubscriptionState::Closed ==> (old(self).state == SubscriptionState::Closed || r.update_state_action == UpdateStateAction::SubscriptionExpired),
            // the lifetime budget is consumed by at most one per step (or restored)
            final(self).lifetime_counter >= old(self).lifetime_counter - 1,
            // a response (keep-alive or notifications) is only produced against a queued/received request
            (r.update_state_action == UpdateStateAction::ReturnKeepAlive || r.update_state_action == UpdateStateAction::ReturnNotifications)
                ==> (p.publishing_req_queued || tick_reason == TickReason::ReceivePublishRequest),
            // --- scenario A: enabled, a request is queued, nothing to report, the publishing timer fired
            (scen_a(*old(self), tick_reason, p) && inv_a(*old(self)) && !kf_c22_ka1_lt3(*old(self))) ==> post_a(*old(self), *final(self), r.update_state_action),
            // --- scenario A, a publish request arrives between timer ticks: nothing changes
            (scen_a_rx(*old(self), tick_reason, p) && inv_a(*old(self))) ==> (*final(self) == *old(self) && r.update_state_action == UpdateStateAction::None),
            // --- scenario B: no request queued, the publishing timer fired
            scen_b(*old(self), tick_reason, p) ==> post_b(*old(self), *final(self), r.update_state_action),'''),
}

PRELUDE_SPEC = '''
pub open spec fn inv(s: Subscription) -> bool {
    &&& 1 <= s.max_keep_alive_counter
    &&& 3 * s.max_keep_alive_counter <= s.max_lifetime_counter   // established by revise_subscription_values (C23)
    &&& 1 <= s.keep_alive_counter <= s.max_keep_alive_counter
    &&& 1 <= s.lifetime_counter <= s.max_lifetime_counter
}
pub open spec fn frame(a: Subscription, b: Subscription) -> bool {
    a.max_keep_alive_counter == b.max_keep_alive_counter && a.max_lifetime_counter == b.max_lifetime_counter
    && a.publishing_enabled == b.publishing_enabled
}
pub open spec fn alive(s: Subscription) -> bool {
    s.state == SubscriptionState::Normal || s.state == SubscriptionState::Late || s.state == SubscriptionState::KeepAlive
}
pub open spec fn scen_a(s: Subscription, reason: TickReason, p: SubscriptionStateParams) -> bool {
    s.publishing_enabled && reason == TickReason::TickTimerFired && p.publishing_timer_expired
    && p.publishing_req_queued && !p.notifications_available && !p.more_notifications
    && s.state != SubscriptionState::Closed
}
pub open spec fn scen_a_rx(s: Subscription, reason: TickReason, p: SubscriptionStateParams) -> bool {
    s.publishing_enabled && reason == TickReason::ReceivePublishRequest && !p.publishing_timer_expired
    && !p.notifications_available && !p.more_notifications
    && (s.state == SubscriptionState::Normal || s.state == SubscriptionState::KeepAlive)
}
pub open spec fn scen_b(s: Subscription, reason: TickReason, p: SubscriptionStateParams) -> bool {
    reason == TickReason::TickTimerFired && p.publishing_timer_expired && !p.publishing_req_queued && alive(s)
}
// states reachable while a publish request is always queued, with enough lifetime left to reach the next keep-alive
pub open spec fn inv_a(s: Subscription) -> bool {
    &&& s.state != SubscriptionState::Late && s.state != SubscriptionState::Closed
    &&& (s.state == SubscriptionState::Creating ==> s.lifetime_counter >= 2)
    &&& (s.state != SubscriptionState::Creating ==> s.lifetime_counter > rank_a(s))
}
// number of publishing-timer steps the state still allows before a keep-alive must have been produced
pub open spec fn rank_a(s: Subscription) -> int {
    match s.state {
        SubscriptionState::Creating => 2,
        SubscriptionState::Normal => if s.first_message_sent { s.max_keep_alive_counter + 1 } else { 1 },
        SubscriptionState::KeepAlive => s.keep_alive_counter as int,
        SubscriptionState::Late => 1,
        SubscriptionState::Closed => 0,
    }
}
pub open spec fn post_a(o: Subscription, n: Subscription, act: UpdateStateAction) -> bool {
    &&& act != UpdateStateAction::SubscriptionExpired
    &&& inv(n) && inv_a(n)
    // progress towards the next keep-alive
    &&& (act == UpdateStateAction::ReturnKeepAlive || rank_a(n) < rank_a(o))
    // the first publishing interval after creation produces the first keep-alive
    &&& ((o.state == SubscriptionState::Normal && !o.first_message_sent) ==> act == UpdateStateAction::ReturnKeepAlive)
    // after a keep-alive the next one is at most max_keep_alive_count (+1 timer slack) intervals away
    &&& (act == UpdateStateAction::ReturnKeepAlive ==> rank_a(n) <= n.max_keep_alive_counter + 1)
}
pub open spec fn post_b(o: Subscription, n: Subscription, act: UpdateStateAction) -> bool {
    &&& (o.lifetime_counter == 1 ==> act == UpdateStateAction::SubscriptionExpired)
    &&& (o.lifetime_counter > 1 ==> (n.lifetime_counter == o.lifetime_counter - 1 && alive(n) && act == UpdateStateAction::None))
}
// KNOWN FINDING C22.ka1_lt3 (see known_findings.txt): with max keep-alive count 1 and lifetime count 3 the
// keep-alive after creation leaves a budget of 2 and the step Normal->KeepAlive uses it up.
pub open spec fn kf_c22_ka1_lt3(s: Subscription) -> bool {
    s.max_keep_alive_counter == 1 && s.max_lifetime_counter == 3
}
'''

LEMMAS = '''
// L1 (history statement, scenario A): from any state satisfying inv_a, every run of timer steps whose
// per-step behaviour satisfies the proved postcondition post_a produces a keep-alive within rank_a(s0)
// steps and never expires.
pub open spec fn step_a(tr: Seq<Subscription>, acts: Seq<UpdateStateAction>, i: int) -> bool {
    post_a(tr[i], tr[i + 1], acts[i])
}
pub open spec fn run_a(tr: Seq<Subscription>, acts: Seq<UpdateStateAction>) -> bool {
    &&& tr.len() == acts.len() + 1
    &&& forall|i: int| 0 <= i < acts.len() ==> #[trigger] step_a(tr, acts, i)
}
proof fn lemma_keep_alive_within_rank(tr: Seq<Subscription>, acts: Seq<UpdateStateAction>)
    requires run_a(tr, acts), acts.len() >= rank_a(tr[0]), rank_a(tr[0]) >= 1,
    ensures exists|i: int| 0 <= i < rank_a(tr[0]) && i < acts.len() && acts[i] == UpdateStateAction::ReturnKeepAlive,
    decreases rank_a(tr[0]),
{
    assert(step_a(tr, acts, 0));
    if acts[0] == UpdateStateAction::ReturnKeepAlive {
    } else {
        let tr2 = tr.subrange(1, tr.len() as int);
        let acts2 = acts.subrange(1, acts.len() as int);
        assert(rank_a(tr[1]) < rank_a(tr[0]));
        assert forall|i: int| 0 <= i < acts2.len() implies #[trigger] step_a(tr2, acts2, i) by {
            assert(step_a(tr, acts, i + 1));
        }
        assert(tr2[0] == tr[1]);
        // rank 0 is only the Closed state, excluded by inv_a(tr[1])
        assert(inv_a(tr[1]));
        assert(rank_a(tr2[0]) >= 1);
        lemma_keep_alive_within_rank(tr2, acts2);
        let j = choose|j: int| 0 <= j < rank_a(tr2[0]) && j < acts2.len() && acts2[j] == UpdateStateAction::ReturnKeepAlive;
        assert(acts[j + 1] == UpdateStateAction::ReturnKeepAlive);
    }
}
proof fn lemma_never_expires_a(tr: Seq<Subscription>, acts: Seq<UpdateStateAction>)
    requires run_a(tr, acts),
    ensures forall|i: int| 0 <= i < acts.len() ==> acts[i] != UpdateStateAction::SubscriptionExpired,
{
    assert forall|i: int| 0 <= i < acts.len() implies acts[i] != UpdateStateAction::SubscriptionExpired by {
        assert(step_a(tr, acts, i));
    }
}
// L2 (history statement, scenario B): with no request ever queued the lifetime counter falls by exactly one
// per publishing interval, so a subscription entering with lifetime L expires at step L (not before, not later).
pub open spec fn step_b(tr: Seq<Subscription>, acts: Seq<UpdateStateAction>, i: int) -> bool {
    alive(tr[i]) ==> post_b(tr[i], tr[i + 1], acts[i])
}
pub open spec fn run_b(tr: Seq<Subscription>, acts: Seq<UpdateStateAction>) -> bool {
    &&& tr.len() == acts.len() + 1
    &&& forall|i: int| 0 <= i < acts.len() ==> #[trigger] step_b(tr, acts, i)
}
proof fn lemma_expires_after_lifetime(tr: Seq<Subscription>, acts: Seq<UpdateStateAction>, k: int)
    requires run_b(tr, acts), alive(tr[0]), tr[0].lifetime_counter >= 1, 0 <= k < acts.len(), k < tr[0].lifetime_counter,
    ensures
        alive(tr[k]) && tr[k].lifetime_counter == tr[0].lifetime_counter - k,
        (acts[k] == UpdateStateAction::SubscriptionExpired) <==> (k == tr[0].lifetime_counter - 1),
    decreases k,
{
    if k > 0 {
        lemma_expires_after_lifetime(tr, acts, k - 1);
        assert(step_b(tr, acts, k - 1));
    }
    assert(step_b(tr, acts, k));
}
'''

CANARY = '''
proof fn canary_update_state_pre(s: Subscription, reason: TickReason, p: SubscriptionStateParams)
    requires inv(s), !(reason == TickReason::ReceivePublishRequest && p.publishing_timer_expired),
        scen_a(s, reason, p), inv_a(s), !kf_c22_ka1_lt3(s),
    ensures false,
{}
proof fn canary_scen_b(s: Subscription, reason: TickReason, p: SubscriptionStateParams)
    requires inv(s), scen_b(s, reason, p), s.lifetime_counter > 1,
    ensures false,
{}
proof fn canary_scen_a_rx(s: Subscription, reason: TickReason, p: SubscriptionStateParams)
    requires inv(s), scen_a_rx(s, reason, p), inv_a(s),
    ensures false,
{}
'''


def build(manifest):
    src = Src('server/subscriptions/subscription.rs', manifest)
    types = '\n'.join([
        src.enum('SubscriptionState'),
        src.struct('SubscriptionStateParams'),
        src.enum('UpdateStateAction'),
        src.enum('HandledState'),
        src.struct('UpdateStateResult'),
        src.enum('TickReason'),
        src.struct('Subscription', derive=None, keep_fields=FIELDS),
    ])
    fn = {'new': src.impl_fn(r'^impl UpdateStateResult \{', 'new')}
    for n in ['update_state', 'reset_keep_alive_counter', 'reset_lifetime_counter', 'start_publishing_timer']:
        fn[n] = src.impl_fn(r'^impl Subscription \{', n)
    for k in fn:
        fn[k] = splice_contract(clean_fn(fn[k]), SPEC[k][1], SPEC[k][0])
    a = Asm()
    a.add('use vstd::prelude::*;\nverus! {\n', 'prelude', 'env')
    a.add(norm_vis(types), 'types', 'env')
    a.add(PRELUDE_SPEC, 'spec', 'env')
    a.add('impl UpdateStateResult {', None)
    a.add(norm_vis(fn['new']), 'UpdateStateResult::new', 'fn')
    a.add('}\nimpl Subscription {', None)
    for n in ['reset_keep_alive_counter', 'reset_lifetime_counter', 'start_publishing_timer', 'update_state']:
        a.add(norm_vis(fn[n]), n, 'fn')
    a.add('}', None)
    add_proof_fns(a, LEMMAS, 'lemma')
    add_proof_fns(a, CANARY, 'canary')
    a.add('}\nfn main() {}\n', None)
    return dict(asm=a, pid=PID, short=SHORT, clauses={k: v[1] for k, v in SPEC.items()},
                twins={'update_state': 'c22::c22_update_state_twin'}, witness={},
                assumptions=[
                    'C22: Subscription::tick calls update_state once per elapsed publishing interval and never with '
                    'ReceivePublishRequest together with an expired timer; handle_state_result turns ReturnKeepAlive / '
                    'SubscriptionExpired into the keep-alive / BadTimeout status-change message (call sites not extracted)',
                    'C22: inv (1 <= keep-alive <= max, 1 <= lifetime <= max, max_lifetime >= 3*max_keep_alive) is the C23 '
                    'postcondition of revise_subscription_values plus Subscription::new copying the revised counts',
                ])
