"""C07 / C13 (send side) — Verus unit: SecureChannel::{symmetric_sign, symmetric_sign_and_encrypt, signing_key,
encryption_keys, local_keys} verbatim: what is signed, with which key, where the signature goes, what is encrypted."""
from extract import *

PID = 'C07'
SHORT = 'send'

ENV = '''
use std::ops::Range;
pub assume_specification<Idx: Clone> [<Range<Idx> as Clone>::clone] (r: &Range<Idx>) -> (c: Range<Idx>) ensures c == *r;
#[derive(Debug, Clone, Copy, PartialEq, Eq, Structural)]
pub struct StatusCode { pub bits: u32 }
pub struct AesKey { pub value: Vec<u8> }
// ---- cryptography (OpenSSL): HMAC and AES-CBC as uninterpreted functions of (key, data)
pub uninterp spec fn spec_mac(p: SecurityPolicy, key: Seq<u8>, data: Seq<u8>) -> Seq<u8>;
pub uninterp spec fn spec_aes_enc(key: Seq<u8>, iv: Seq<u8>, plain: Seq<u8>) -> Seq<u8>;
pub open spec fn supported(p: SecurityPolicy) -> bool { p != SecurityPolicy::None && p != SecurityPolicy::Unknown }
pub open spec fn sig_len(p: SecurityPolicy) -> int {
    match p { SecurityPolicy::None => 0, SecurityPolicy::Basic128Rsa15 | SecurityPolicy::Basic256 => 20, _ => 32 }
}
// ---- environment for add_space_for_padding_and_signature
pub struct DecodingOptions { pub x: u8 }
pub struct SymmetricSecurityHeader { pub token_id: u32 }
pub struct AsymmetricSecurityHeader { pub x: u8 }
pub enum SecurityHeader { Asymmetric(AsymmetricSecurityHeader), Symmetric(SymmetricSecurityHeader) }
pub struct ChunkInfo { pub security_header: SecurityHeader, pub body_length: usize, pub sequence_header_offset: usize }
pub struct MessageChunk { pub data: Vec<u8> }
// the body length recorded in a chunk's headers (message size minus the three headers): a function of its bytes
pub uninterp spec fn spec_body_len(data: Seq<u8>) -> usize;
impl MessageChunk {
    // ChunkInfo::new (stream decoding of the three headers): for a MSG/CLO chunk the security header is the symmetric
    // one and the body lies inside the chunk
    #[verifier::external_body]
    pub fn chunk_info(&self, secure_channel: &SecureChannel) -> (r: Result<ChunkInfo, StatusCode>)
        ensures r is Ok ==> r->Ok_0.security_header is Symmetric && r->Ok_0.body_length <= self.data@.len()
            && r->Ok_0.body_length == spec_body_len(self.data@),
    { unimplemented!() }
}
// std::io::Cursor<Vec<u8>> used as an append-only writer from position 0 of an empty vector
pub struct Cursor { pub buf: Vec<u8> }
impl Cursor {
    pub fn new(buf: Vec<u8>) -> (r: Cursor) requires buf@.len() == 0, ensures r.buf@ == buf@ { Cursor { buf } }
    #[verifier::external_body]
    pub fn write(&mut self, data: &[u8]) -> (r: Result<usize, StatusCode>)
        ensures final(self).buf@ == old(self).buf@ + data@,
    { unimplemented!() }
    pub fn into_inner(self) -> (r: Vec<u8>) ensures r@ == self.buf@ { self.buf }
}
// types::encoding::write_bytes / write_u8 (over `&mut dyn Write`): append `count` copies of the byte / one byte
#[verifier::external_body]
pub fn write_bytes(stream: &mut Cursor, value: u8, count: usize) -> (r: Result<usize, StatusCode>)
    ensures r is Ok ==> final(stream).buf@ == old(stream).buf@ + Seq::new(count as nat, |i: int| value),
{ unimplemented!() }
#[verifier::external_body]
pub fn write_u8(stream: &mut Cursor, value: u8) -> (r: Result<usize, StatusCode>)
    ensures r is Ok ==> final(stream).buf@ == old(stream).buf@.push(value),
{ unimplemented!() }
// the Part 6 padding count, as proved for the real padding_size in unit c07_sizes
pub open spec fn encrypting(c: &SecureChannel) -> bool {
    c.security_policy != SecurityPolicy::None && c.security_mode == MessageSecurityMode::SignAndEncrypt
}
pub open spec fn spec_pad(sec: bool, body: usize, sig: usize) -> usize {
    if !sec { 0 } else {
        let e = 8 + body + sig + 1;
        if e % 16 != 0 { (1 + (16 - e % 16)) as usize } else { 1 }
    }
}
pub uninterp spec fn spec_with_size(data: Seq<u8>, size: nat) -> Seq<u8>;
impl SecureChannel {
    // contracts proved on the real functions in units c07_sizes / c09_total
    #[verifier::external_body]
    pub fn signature_size(&self, security_header: &SecurityHeader) -> (r: usize)
        requires self.security_policy != SecurityPolicy::Unknown, security_header is Symmetric,
        ensures r == sig_len(self.security_policy),
    { unimplemented!() }
    #[verifier::external_body]
    pub fn padding_size(&self, security_header: &SecurityHeader, body_size: usize, signature_size: usize) -> (r: (usize, usize))
        requires self.security_policy != SecurityPolicy::Unknown, body_size <= 0x1000_0000, signature_size <= 256, security_header is Symmetric,
        ensures r.0 == spec_pad(encrypting(self), body_size, signature_size), encrypting(self) ==> r.1 == 1, !encrypting(self) ==> r.1 == 0,
    { unimplemented!() }
    #[verifier::external_body]
    pub fn update_message_size_and_truncate(data: Vec<u8>, message_size: usize, decoding_options: &DecodingOptions) -> (r: Result<Vec<u8>, StatusCode>)
        requires message_size <= data@.len(),
        ensures r is Ok ==> r->Ok_0@ == spec_with_size(data@, message_size as nat).subrange(0, message_size as int),
    { unimplemented!() }
}
impl SecurityPolicy {
    // hash::hmac_sha1 / hmac_sha256: fill `signature` (which must have the digest size) with HMAC(key, data)
    #[verifier::external_body]
    pub fn symmetric_sign(&self, key: &[u8], data: &[u8], signature: &mut [u8]) -> (r: Result<(), StatusCode>)
        ensures final(signature)@.len() == old(signature)@.len(),
            r is Ok ==> old(signature)@.len() == sig_len(*self) && final(signature)@ == spec_mac(*self, key@, data@),
    { unimplemented!() }
    // AES-CBC without padding: length preserving; needs a block of slack in the destination (validate_aes_args)
    #[verifier::external_body]
    pub fn symmetric_encrypt(&self, key: &AesKey, iv: &[u8], src: &[u8], dst: &mut [u8]) -> (r: Result<usize, StatusCode>)
        ensures final(dst)@.len() == old(dst)@.len(),
            r is Ok ==> r->Ok_0 == src@.len() && src@.len() + 16 <= old(dst)@.len()
                && final(dst)@.subrange(0, src@.len() as int) == spec_aes_enc(key.value@, iv@, src@),
    { unimplemented!() }
}
'''

SPEC = {
    'symmetric_signature_size': ('r', '''        requires *self != SecurityPolicy::Unknown,
        ensures r == sig_len(*self),'''),
    'local_keys': ('r', '''        requires self.local_keys is Some,
        ensures *r == self.local_keys->Some_0,'''),
    'signing_key': ('r', '''        requires self.local_keys is Some,
        ensures r@ == self.local_keys->Some_0.0@,'''),
    'encryption_keys': ('r', '''        requires self.local_keys is Some,
        ensures *r.0 == self.local_keys->Some_0.1, r.1@ == self.local_keys->Some_0.2@,'''),
    'expect_supported_security_policy': (None, '''        requires supported(self.security_policy),'''),
    'symmetric_sign': ('r', '''        requires supported(self.security_policy), self.local_keys is Some,
            signed_range.start <= signed_range.end, signed_range.end + sig_len(self.security_policy) <= src@.len(),
            signed_range.end + sig_len(self.security_policy) <= old(dst)@.len(), src@.len() <= 0x7fff_ffff,
        ensures final(dst)@.len() == old(dst)@.len(),
            r is Ok ==> ({
                let e = signed_range.end as int;
                let s = sig_len(self.security_policy);
                &&& r->Ok_0 == e + s
                // the signed bytes are copied unchanged ...
                &&& final(dst)@.subrange(signed_range.start as int, e) == src@.subrange(signed_range.start as int, e)
                // ... and followed by the MAC of exactly those bytes under the LOCAL signing key
                &&& final(dst)@.subrange(e, e + s) == spec_mac(self.security_policy, self.local_keys->Some_0.0@, src@.subrange(signed_range.start as int, e))
                // nothing before the signed range is touched
                &&& final(dst)@.subrange(0, signed_range.start as int) == old(dst)@.subrange(0, signed_range.start as int)
            }),'''),
    'add_space_for_padding_and_signature': ('r', '''        requires self.security_policy != SecurityPolicy::Unknown, message_chunk.data@.len() <= 0x1000_0000,
        ensures r is Ok ==> ({
            let data = message_chunk.data@;
            let sig = sig_len(self.security_policy) as nat;
            ({
                let body = spec_body_len(data);
                let pad = spec_pad(encrypting(self), body, sig as usize) as nat;
                let total = data.len() + pad + sig;
                // the chunk, then `pad` bytes each holding pad - 1 (the padding size field counts the bytes after
                // itself), then room for the signature, with the size field of the header set to the new length
                r->Ok_0@ == spec_with_size(data + Seq::new(pad, |i: int| ((pad - 1) as u8)) + Seq::new(sig, |i: int| 0u8), total).subrange(0, total as int)
            })
        }),'''),
    'symmetric_sign_and_encrypt': ('r', '''        requires
            self.security_mode == MessageSecurityMode::Sign || self.security_mode == MessageSecurityMode::SignAndEncrypt,
            supported(self.security_policy), self.local_keys is Some, src@.len() <= 0x7fff_ffff,
            // as established by apply_security: everything but the trailing signature is signed, from the sequence header on is encrypted
            signed_range.start == 0, signed_range.end + sig_len(self.security_policy) == src@.len(),
            encrypted_range.start <= signed_range.end, encrypted_range.end == src@.len(),
            old(dst)@.len() >= src@.len() + 16, old(dst)@.len() <= 0x7fff_ffff,
        ensures final(dst)@.len() == old(dst)@.len(),
            r is Ok ==> ({
                let n = src@.len() as int;
                let e = signed_range.end as int;
                let keys = self.local_keys->Some_0;
                // the plaintext chunk: the signed bytes followed by their MAC under the local signing key
                let plain = src@.subrange(0, e) + spec_mac(self.security_policy, keys.0@, src@.subrange(0, e));
                &&& r->Ok_0 == n
                &&& (self.security_mode == MessageSecurityMode::Sign ==> final(dst)@.subrange(0, n) == plain)
                &&& (self.security_mode == MessageSecurityMode::SignAndEncrypt ==> ({
                        // headers in clear, everything from the sequence header on encrypted with the local key and IV
                        &&& final(dst)@.subrange(0, encrypted_range.start as int) == src@.subrange(0, encrypted_range.start as int)
                        &&& final(dst)@.subrange(encrypted_range.start as int, n)
                            == spec_aes_enc(keys.1.value@, keys.2@, plain.subrange(encrypted_range.start as int, n))
                    }))
            }),'''),
}

LEMMAS = '''
// Sign mode: the chunk with security applied is the chunk plus its signature, nothing else (Part 6: padding only
// exists in encrypted chunks); SignAndEncrypt: 1..=16 padding bytes
proof fn lemma_pad_only_when_encrypting(c: &SecureChannel, body: usize, sig: usize)
    requires body <= 0x1000_0000, sig <= 256,
    ensures !encrypting(c) ==> spec_pad(encrypting(c), body, sig) == 0,
        encrypting(c) ==> 1 <= spec_pad(encrypting(c), body, sig) <= 16,
{
}
'''

CANARY = '''
proof fn canary_send(c: &SecureChannel, n: nat)
    requires c.security_mode == MessageSecurityMode::SignAndEncrypt, supported(c.security_policy), c.local_keys is Some, n == 100,
    ensures false,
{}
'''


def build(manifest):
    sc = Src('core/comms/secure_channel.rs', manifest)
    sp = Src('crypto/security_policy.rs', manifest)
    en = Src('types/service_types/enums.rs', manifest)
    types = '\n'.join([sp.enum('SecurityPolicy'), en.enum('MessageSecurityMode'),
                       sc.struct('SecureChannel', keep_fields=['security_policy', 'security_mode', 'local_keys', 'decoding_options'])])
    f = {'symmetric_signature_size': sp.impl_fn(r'^impl SecurityPolicy \{', 'symmetric_signature_size')}
    order = ['local_keys', 'signing_key', 'encryption_keys', 'expect_supported_security_policy', 'symmetric_sign',
             'symmetric_sign_and_encrypt', 'add_space_for_padding_and_signature']
    for n in order:
        f[n] = sc.impl_fn(r'^impl SecureChannel \{', n)
    for k in f:
        t = norm_vis(clean_fn(f[k]))
        t = re.sub(r'^(\s*)fn ', r'\1pub fn ', t, count=1) if not re.match(r'\s*pub ', t) else t
        f[k] = splice_contract(t, SPEC[k][1], SPEC[k][0])
    g = f['symmetric_sign_and_encrypt']
    g = splice_at(g, r'^\s*Ok\(encrypted_size\)', '''        proof {
            let n = src@.len() as int;
            let e = signed_range.end as int;
            let mac = spec_mac(self.security_policy, self.local_keys->Some_0.0@, src@.subrange(0, e));
            if self.security_mode == MessageSecurityMode::Sign {
                assert(dst@.subrange(0, n) =~= dst@.subrange(0, e) + dst@.subrange(e, n));
            }
        }''', before=True)
    g = splice_at(g, r'^\s*let \(key, iv\) = self\.encryption_keys\(\);', '''                proof {
                    let n = src@.len() as int;
                    let e = signed_range.end as int;
                    let mac = spec_mac(self.security_policy, self.local_keys->Some_0.0@, src@.subrange(0, e));
                    assert(dst_tmp@.subrange(0, n) =~= src@.subrange(0, e) + mac) by {
                        assert(dst_tmp@.subrange(0, n) =~= dst_tmp@.subrange(0, e) + dst_tmp@.subrange(e, n));
                    }
                    assert(dst_tmp@.subrange(encrypted_range.start as int, n) =~= (src@.subrange(0, e) + mac).subrange(encrypted_range.start as int, n));
                }''', before=True)
    f['symmetric_sign_and_encrypt'] = g
    h = full_slice(f['add_space_for_padding_and_signature'], 'message_chunk.data')
    h = splice_at(h, r'^\s*let padding_byte = \(\(padding_size - 1\) & 0xff\) as u8;', '''                proof {
                    let x: usize = (padding_size - 1) as usize;
                    assert((x & 0xff) as u8 == x as u8) by (bit_vector)
                        requires x <= 16;
                }''', before=False)
    h = splice_at(h, r'^\s*let message_size = data\.len\(\) \+ padding_size \+ signature_size;', '''        proof {
            let d = message_chunk.data@;
            let pad = padding_size as nat;
            let sig = signature_size as nat;
            assert(stream.buf@ =~= d + Seq::new(pad, |i: int| ((pad - 1) as u8)) + Seq::new(sig, |i: int| 0u8));
        }''', before=True)
    f['add_space_for_padding_and_signature'] = h
    a = Asm()
    a.add('use vstd::prelude::*;\nverus! {\nglobal size_of usize == 8;\n', 'prelude', 'env')
    a.add(norm_vis(types), 'types', 'env')
    cr_ = Src('crypto/mod.rs', manifest)
    a.add(norm_vis(cr_.const('SHA1_SIZE')) + '\n' + norm_vis(cr_.const('SHA256_SIZE')), 'constants', 'env')      # the repository's own values
    a.add(ENV, 'env', 'env')
    a.add('impl SecurityPolicy {')
    a.add(f['symmetric_signature_size'], 'symmetric_signature_size', 'fn')
    a.add('}\nimpl SecureChannel {')
    for n in order:
        a.add(f[n], n, 'fn')
    a.add('}')
    add_proof_fns(a, LEMMAS, 'lemma')
    add_proof_fns(a, CANARY, 'canary')
    a.add('}\nfn main() {}\n')
    return dict(asm=a, pid=PID, short=SHORT, clauses={k: v[1] for k, v in SPEC.items()}, twins={}, witness={},
                assumptions=['C07: HMAC and AES-CBC (OpenSSL) are deterministic functions of (key, data); AES-CBC without padding is '
                             'length preserving; the caller (apply_security) passes the ranges stated in the precondition and a '
                             'destination with a cipher block of slack'])
