"""C07 (size half) — Verus unit over the real padding / signature-size / body-size arithmetic:
SecureChannel::{minimum_padding, padding_size, signature_size}, MessageChunk::body_size_from_message_size,
SecurityPolicy::{plain_block_size, symmetric_signature_size, asymmetric_encryption_padding}."""
from extract import *

PID = 'C07'
SHORT = 'sizes'

ENV = '''
// ---- environment: declarations standing for code outside this unit (assumed contracts; the ones that stand for
// ---- code of this repository are re-checked on the real functions by the Kani harnesses c07::c07_env_*) ----
pub struct ByteString { pub is_null_ghost: bool }
impl ByteString {
    #[verifier::external_body]
    pub fn is_null(&self) -> (r: bool) ensures r == self.is_null_ghost { unimplemented!() }
}
pub struct AsymmetricSecurityHeader { pub sender_certificate: ByteString, pub len: usize }
pub struct SymmetricSecurityHeader { pub token_id: u32 }
pub enum SecurityHeader { Asymmetric(AsymmetricSecurityHeader), Symmetric(SymmetricSecurityHeader) }
impl SecurityHeader {
    #[verifier::external_body]
    pub fn byte_len(&self) -> (r: usize)
        ensures r == spec_header_len(*self)
    { unimplemented!() }
}
pub open spec fn spec_header_len(h: SecurityHeader) -> usize {
    match h { SecurityHeader::Symmetric(_) => 4, SecurityHeader::Asymmetric(a) => a.len }
}
pub struct SequenceHeader { pub sequence_number: u32, pub request_id: u32 }
impl SequenceHeader {
    #[verifier::external_body]
    pub fn byte_len(&self) -> (r: usize) ensures r == 8 { unimplemented!() }
}
pub struct PublicKey { pub sz: usize }
impl PublicKey {
    #[verifier::external_body]
    pub fn size(&self) -> (r: usize) ensures r == self.sz { unimplemented!() }
    #[verifier::external_body]
    pub fn plain_text_block_size(&self, padding: RsaPadding) -> (r: usize)
        ensures r == spec_ptbs(self.sz, padding)
    { unimplemented!() }
}
pub open spec fn spec_ptbs(sz: usize, p: RsaPadding) -> usize {
    match p { RsaPadding::Pkcs1 => (sz - 11) as usize, RsaPadding::OaepSha1 => (sz - 42) as usize, RsaPadding::OaepSha256 => (sz - 66) as usize, _ => 0 }
}
pub struct X509 { pub key: PublicKey }
#[derive(Debug)]
pub struct StatusCode { pub bits: u32 }
impl X509 {
    #[verifier::external_body]
    pub fn public_key(&self) -> (r: Result<PublicKey, StatusCode>) ensures r is Ok, r->Ok_0 == self.key { unimplemented!() }
    #[verifier::external_body]
    pub fn from_byte_string(b: &ByteString) -> (r: Result<X509, StatusCode>) ensures !b.is_null_ghost ==> r is Ok { unimplemented!() }
}
pub uninterp spec fn spec_remote_cert(c: &SecureChannel) -> Option<X509>;
impl SecureChannel {
    #[verifier::external_body]
    pub fn remote_cert(&self) -> (r: Option<X509>) ensures r == spec_remote_cert(self) { unimplemented!() }
    #[verifier::external_body]
    pub fn make_security_header(&self, message_type: MessageChunkType) -> (r: SecurityHeader)
        ensures (message_type != MessageChunkType::OpenSecureChannel) ==> r is Symmetric
    { unimplemented!() }
}
pub struct MessageChunk { pub x: u8 }
'''

SPEC = {
    'plain_block_size': ('r', '''        requires self.is_supported_spec(),
        ensures r == 16,'''),
    'symmetric_signature_size': ('r', '''        requires self != SecurityPolicy::Unknown,
        ensures r == spec_sym_sig(*self),'''),
    'asymmetric_encryption_padding': ('r', '''        requires self.is_supported_spec(),
        ensures r != RsaPadding::Pkcs1Pss,
            r == spec_asym_padding(*self),'''),
    'minimum_padding': ('r', '''        ensures r == (if key_length <= 256 { 1usize } else { 2usize }),'''),
    'signature_size': ('r', '''        requires old_ok(self), security_header is Symmetric,
        ensures r == spec_sym_sig(self.security_policy),'''),
    'padding_size': ('r', '''        requires
            old_ok(self),
            body_size <= 0x1000_0000, signature_size <= 256,
            security_header is Symmetric,
        ensures
            // Part 6 6.7.2: padding exists only in a chunk that is encrypted (a signed-only chunk has none)
            r.0 == spec_pad(encrypting(self), body_size, signature_size),
            encrypting(self) ==> r.1 == 1,
            !encrypting(self) ==> r.1 == 0,'''),
    'body_size_from_message_size': ('r', '''        requires old_ok(secure_channel), message_type != MessageChunkType::OpenSecureChannel, message_size <= 0x1000_0000,
        ensures
            message_size < MIN_CHUNK_SIZE ==> r is Err,
            // the largest body that fits the negotiated size together with its own padding
            message_size >= MIN_CHUNK_SIZE ==> r is Ok
                && spec_chunk_size(secure_channel, r->Ok_0) <= message_size
                && spec_chunk_size(secure_channel, (r->Ok_0 + 1) as usize) > message_size
                && r->Ok_0 == spec_body(secure_channel, message_size),'''),
}

PRELUDE_SPEC = '''
impl SecurityPolicy {
    pub open spec fn is_supported_spec(&self) -> bool {
        *self != SecurityPolicy::None && *self != SecurityPolicy::Unknown
    }
}
// Part 7 profiles: HMAC-SHA1 (20 bytes) for Basic128Rsa15/Basic256, HMAC-SHA256 (32 bytes) for the others
pub open spec fn spec_sym_sig(p: SecurityPolicy) -> usize {
    match p { SecurityPolicy::None => 0, SecurityPolicy::Basic128Rsa15 | SecurityPolicy::Basic256 => 20, _ => 32 }
}
pub open spec fn spec_asym_padding(p: SecurityPolicy) -> RsaPadding {
    match p {
        SecurityPolicy::Basic128Rsa15 => RsaPadding::Pkcs1,
        SecurityPolicy::Aes256Sha256RsaPss => RsaPadding::OaepSha256,
        _ => RsaPadding::OaepSha1,
    }
}
pub open spec fn secured(c: &SecureChannel) -> bool {
    c.security_policy != SecurityPolicy::None && c.security_mode != MessageSecurityMode::None
}
// symmetric chunks are encrypted (and therefore padded) only in mode SignAndEncrypt
pub open spec fn encrypting(c: &SecureChannel) -> bool {
    c.security_policy != SecurityPolicy::None && c.security_mode == MessageSecurityMode::SignAndEncrypt
}
pub open spec fn old_ok(c: &SecureChannel) -> bool { c.security_policy != SecurityPolicy::Unknown }
// PaddingSize per Part 6 6.7.2.5: bytes appended (including the 1-byte padding-size field) so that
// sequence header + body + padding + signature is a whole number of cipher blocks
pub open spec fn spec_pad(sec: bool, body: usize, sig: usize) -> usize {
    if !sec { 0 } else {
        let e = 8 + body + sig + 1;
        if e % 16 != 0 { (1 + (16 - e % 16)) as usize } else { 1 }
    }
}
// the body size for a negotiated chunk size m: everything but the headers and the signature, minus (when encrypting) what
// makes sequence header + body + one padding byte + signature end on a cipher block boundary
pub open spec fn spec_body(c: &SecureChannel, m: usize) -> usize {
    let sig = spec_sym_sig(c.security_policy);
    let b0 = m - (12 + 4 + 8 + sig);
    (if encrypting(c) { b0 - ((8 + b0 + sig) % 16) - 1 } else { b0 }) as usize
}
// total bytes on the wire for a symmetric chunk with body b
pub open spec fn spec_chunk_size(c: &SecureChannel, b: usize) -> int {
    let sig = spec_sym_sig(c.security_policy);
    12 + 4 + 8 + b + spec_pad(encrypting(c), b, sig) + sig
}
'''

LEMMAS = '''
// C07 "never exceed the negotiated chunk size": every body up to the computed body size gives a chunk <= m
proof fn lemma_chunk_fits(c: &SecureChannel, m: usize, b: usize)
    requires old_ok(c), MIN_CHUNK_SIZE <= m <= 0x1000_0000, b <= spec_body(c, m),
    ensures spec_chunk_size(c, b) <= m,
{
    let sig = spec_sym_sig(c.security_policy);
    if !encrypting(c) {
        // signed-only or unsecured: no padding, the full chunk is exactly m
        assert(spec_pad(false, b, sig) == 0 && spec_pad(false, 1, sig) == 0);
    } else {
        assert(sig == 20 || sig == 32);
    }
}
// and the computed body size wastes less than one cipher block: the full chunk ends within 15 bytes of the negotiated size
proof fn lemma_body_is_tight(c: &SecureChannel, m: usize)
    requires old_ok(c), MIN_CHUNK_SIZE <= m <= 0x1000_0000,
    ensures m - 15 <= spec_chunk_size(c, spec_body(c, m)) <= m,
{
    let sig = spec_sym_sig(c.security_policy);
    assert(sig == 0 || sig == 20 || sig == 32);
}
// C07: what is signed/encrypted is a whole number of cipher blocks
proof fn lemma_block_multiple(c: &SecureChannel, b: usize)
    requires old_ok(c), encrypting(c), b <= 0x1000_0000,
    ensures (8 + b + spec_pad(true, b, spec_sym_sig(c.security_policy)) + spec_sym_sig(c.security_policy)) % 16 == 0,
{
}
// the padding is minimal: 1..=16 bytes
proof fn lemma_pad_range(b: usize, sig: usize)
    requires b <= 0x1000_0000, sig <= 256,
    ensures 1 <= spec_pad(true, b, sig) <= 16, spec_pad(false, b, sig) == 0,
{
}
// a useful body always remains at the minimum chunk size (8192)
proof fn lemma_body_positive(c: &SecureChannel, m: usize)
    requires old_ok(c), MIN_CHUNK_SIZE <= m <= 0x1000_0000,
    ensures spec_body(c, m) >= MIN_CHUNK_SIZE - 79,
{
}
'''

WITNESS = ''

CANARY = '''
proof fn canary_padding_size_pre(c: &SecureChannel, h: SecurityHeader, body_size: usize, signature_size: usize)
    requires old_ok(c), body_size <= 0x1000_0000, signature_size <= 256, h is Symmetric, encrypting(c),
    ensures false,
{}
proof fn canary_chunk_fits_pre(c: &SecureChannel, m: usize, b: usize)
    requires old_ok(c), encrypting(c), MIN_CHUNK_SIZE <= m <= 0x1000_0000, b <= spec_body(c, m),
    ensures false,
{}
'''


def build(manifest):
    sc = Src('core/comms/secure_channel.rs', manifest)
    mc = Src('core/comms/message_chunk.rs', manifest)
    sp = Src('crypto/security_policy.rs', manifest)
    pk = Src('crypto/pkey.rs', manifest)
    en = Src('types/service_types/enums.rs', manifest)
    tt = Src('core/comms/tcp_types.rs', manifest)
    cm = Src('crypto/mod.rs', manifest)
    types = '\n'.join([sp.enum('SecurityPolicy'), pk.enum('RsaPadding'), en.enum('MessageSecurityMode'),
                       mc.enum('MessageChunkType'),
                       sc.struct('SecureChannel', keep_fields=['security_policy', 'security_mode'])])
    consts = '\n'.join([tt.const('MIN_CHUNK_SIZE'), mc.const('MESSAGE_CHUNK_HEADER_SIZE'), cm.const('SHA1_SIZE'),
                        cm.const('SHA256_SIZE')])
    fns = {}
    for n in ['minimum_padding', 'padding_size', 'signature_size']:
        fns[n] = sc.impl_fn(r'^impl SecureChannel \{', n)
    fns['body_size_from_message_size'] = mc.impl_fn(r'^impl MessageChunk \{', 'body_size_from_message_size')
    for n in ['plain_block_size', 'symmetric_signature_size', 'asymmetric_encryption_padding']:
        fns[n] = sp.impl_fn(r'^impl SecurityPolicy \{', n)
    for k in fns:
        fns[k] = norm_vis(splice_contract(clean_fn(fns[k]), SPEC[k][1], SPEC[k][0]))
        # private fns are called across impl blocks of one file: visibility has no run-time meaning (D5)
        fns[k] = re.sub(r'^(\s*)fn ', r'\1pub fn ', fns[k], count=1) if not re.match(r'\s*pub ', fns[k]) else fns[k]
    # the loop that takes the padding of the body off the body: decreasing from "no padding reserved"
    fns['body_size_from_message_size'] = splice_loop(fns['body_size_from_message_size'], 0, '''            invariant old_ok(secure_channel), security_header is Symmetric, MIN_CHUNK_SIZE <= message_size <= 0x1000_0000,
                signature_size == spec_sym_sig(secure_channel.security_policy), data_size == 12 + 4 + 8 + signature_size,
                body_size <= message_size - data_size,
                // every larger body overshoots
                forall|b: usize| body_size < b <= message_size - data_size ==> #[trigger] spec_chunk_size(secure_channel, b) > message_size,
            decreases body_size,''')
    a = Asm()
    a.add('use vstd::prelude::*;\nverus! {\nglobal size_of usize == 8;\n', 'prelude', 'env')
    a.add(norm_vis(types) + '\n' + norm_vis(consts), 'types', 'env')
    a.add(ENV, 'env', 'env')
    a.add(PRELUDE_SPEC, 'spec', 'env')
    a.add('impl SecurityPolicy {')
    for n in ['plain_block_size', 'symmetric_signature_size', 'asymmetric_encryption_padding']:
        a.add(fns[n], n, 'fn')
    a.add('}\nimpl SecureChannel {')
    for n in ['minimum_padding', 'signature_size', 'padding_size']:
        a.add(fns[n], n, 'fn')
    a.add('}\nimpl MessageChunk {')
    a.add(fns['body_size_from_message_size'], 'body_size_from_message_size', 'fn')
    a.add('}')
    add_proof_fns(a, LEMMAS, 'lemma')
    add_proof_fns(a, CANARY, 'canary')
    a.add('}\nfn main() {}\n')
    return dict(asm=a, pid=PID, short=SHORT, clauses={k: v[1] for k, v in SPEC.items()},
                twins={'padding_size': 'c07::c07_padding_twin', 'body_size_from_message_size': 'c07::c07_padding_twin',
                       'lemma_chunk_fits': 'c07::c07_padding_twin'},
                witness={},
                assumptions=['C07: contracts are for symmetric (MSG/CLO) chunks; OPN chunks (asymmetric header, RSA block sizes) are '
                             'not under contract', 'C07: AES-CBC / RSA decrypt inverts encrypt (OpenSSL) — assumed, not proved'])
