"""C09 — Verus unit: AesKey::validate_aes_args (lib/src/crypto/aeskey.rs), verbatim: every malformed argument
(destination too small, IV of the wrong size, cipher text that is not a whole number of blocks) is an error, never a panic."""
from extract import *

PID = 'C09'
SHORT = 'aes'

ENV = '''
// openssl::symm::Cipher: only its block size is used here (16 for AES-CBC)
pub struct Cipher { pub bs: usize }
impl Cipher {
    #[verifier::external_body]
    pub fn block_size(&self) -> (r: usize) ensures r == self.bs { unimplemented!() }
}
pub struct AesKey { pub value: Vec<u8> }
'''
SPEC = {
    'validate_aes_args': ('r', '''        requires cipher.bs == 16, src@.len() <= 0x7fff_ffff,
        ensures
            // accepted exactly for a block-aligned source, a 16/32-byte IV and a destination with a block of slack
            (r is Ok) == (src@.len() % 16 == 0 && (iv@.len() == 16 || iv@.len() == 32) && old(dst)@.len() >= src@.len() + 16),
            final(dst)@ == old(dst)@,'''),
}


def build(manifest):
    src = Src('crypto/aeskey.rs', manifest)
    f = norm_vis(clean_fn(src.impl_fn(r'^impl AesKey \{', 'validate_aes_args')))
    f = re.sub(r'^(\s*)fn ', r'\1pub fn ', f, count=1)
    f = splice_contract(f, SPEC['validate_aes_args'][1], 'r')
    a = Asm()
    a.add('use vstd::prelude::*;\nverus! {\nglobal size_of usize == 8;\n', 'prelude', 'env')
    a.add(status_code_struct(manifest), 'status codes', 'env')      # every status code of the real file (D14)
    a.add(ENV, 'env', 'env')
    a.add('impl AesKey {')
    a.add(f, 'validate_aes_args', 'fn')
    a.add('}')
    add_proof_fns(a, '''
proof fn canary_aes(n: nat)
    requires n % 16 == 0, n == 32,
    ensures false,
{}
''', 'canary')
    a.add('}\nfn main() {}\n')
    return dict(asm=a, pid=PID, short=SHORT, clauses={k: v[1] for k, v in SPEC.items()}, twins={}, witness={},
                assumptions=['C09: the AES-CBC ciphers of all policies have block size 16 (openssl Cipher)'])
