"""C08 — Verus unit: the HMAC layer that the receive path's contract assumes: crypto::hash::{hmac, hmac_sha1, hmac_sha256,
verify_hmac_sha1, verify_hmac_sha256} and SecurityPolicy::{symmetric_sign, symmetric_verify_signature}, verbatim.
Only hmac_vec (four OpenSSL calls) and openssl::memcmp::eq are environment."""
from extract import *

PID = 'C08'
SHORT = 'hmac'

ENV = '''
pub mod hash { use vstd::prelude::*; verus! {
    #[derive(Clone, Copy)]
    pub struct MessageDigest { pub id: u8 }
    impl MessageDigest {
        pub fn sha1() -> (r: MessageDigest) ensures r.id == 1 { MessageDigest { id: 1 } }
        pub fn sha256() -> (r: MessageDigest) ensures r.id == 2 { MessageDigest { id: 2 } }
    }
} }
// HMAC (OpenSSL) as an uninterpreted function; SHA-1 digests are 20 bytes, SHA-256 digests 32
pub open spec fn digest_len(d: hash::MessageDigest) -> nat { if d.id == 1 { 20 } else { 32 } }
pub mod axh { use vstd::prelude::*; use super::hash; verus! {
pub uninterp spec fn spec_hmac(d: hash::MessageDigest, key: Seq<u8>, data: Seq<u8>) -> Seq<u8>;
#[verifier::external_body]
pub broadcast proof fn axiom_hmac_len(d: hash::MessageDigest, key: Seq<u8>, data: Seq<u8>)
    ensures (#[trigger] spec_hmac(d, key, data)).len() == (if d.id == 1 { 20nat } else { 32nat })
{}
} }
pub use axh::spec_hmac;
broadcast use axh::axiom_hmac_len;
#[verifier::external_body]
pub fn hmac_vec(digest: hash::MessageDigest, key: &[u8], data: &[u8]) -> (r: Vec<u8>)
    requires digest.id == 1 || digest.id == 2,
    ensures r@ == spec_hmac(digest, key@, data@), r@.len() == digest_len(digest),
{ unimplemented!() }
pub mod openssl { pub mod memcmp { use vstd::prelude::*; verus! {
    // constant-time comparison of two equally long byte strings
    #[verifier::external_body]
    pub fn eq(a: &[u8], b: &[u8]) -> (r: bool)
        requires a@.len() == b@.len(),
        ensures r == (a@ == b@),
    { unimplemented!() }
} } }
pub open spec fn supported(p: SecurityPolicy) -> bool { p != SecurityPolicy::None && p != SecurityPolicy::Unknown }
// Part 7 profiles: HMAC-SHA1 for Basic128Rsa15 / Basic256, HMAC-SHA256 for the others
pub open spec fn mac_digest(p: SecurityPolicy) -> hash::MessageDigest {
    match p { SecurityPolicy::Basic128Rsa15 | SecurityPolicy::Basic256 => hash::MessageDigest { id: 1 }, _ => hash::MessageDigest { id: 2 } }
}
'''

SPEC = {
    'hmac': ('r', '''    requires digest.id == 1 || digest.id == 2, old(signature)@.len() == digest_len(digest),
    ensures r is Ok, final(signature)@ == spec_hmac(digest, key@, data@), final(signature)@.len() == old(signature)@.len(),'''),
    'hmac_sha1': ('r', '''    ensures (r is Ok) == (old(signature)@.len() == 20), final(signature)@.len() == old(signature)@.len(),
        r is Ok ==> final(signature)@ == spec_hmac(hash::MessageDigest { id: 1 }, key@, data@),'''),
    'hmac_sha256': ('r', '''    ensures (r is Ok) == (old(signature)@.len() == 32), final(signature)@.len() == old(signature)@.len(),
        r is Ok ==> final(signature)@ == spec_hmac(hash::MessageDigest { id: 2 }, key@, data@),'''),
    'verify_hmac_sha1': ('r', '''    // accepted exactly when the signature IS the HMAC-SHA1 of the data under the key (all 20 bytes)
    ensures r == (signature@ == spec_hmac(hash::MessageDigest { id: 1 }, key@, data@)),'''),
    'verify_hmac_sha256': ('r', '''    ensures r == (signature@ == spec_hmac(hash::MessageDigest { id: 2 }, key@, data@)),'''),
    'symmetric_sign': ('r', '''        requires supported(*self),
        ensures final(signature)@.len() == old(signature)@.len(),
            r is Ok ==> final(signature)@ == spec_hmac(mac_digest(*self), key@, data@),'''),
    'symmetric_verify_signature': ('r', '''        requires supported(*self),
        // this is the clause the receive-path unit (c08_mac) assumes about this function, and its converse
        ensures (r is Ok) == (signature@ == spec_hmac(mac_digest(*self), key@, data@)),
            r is Ok ==> r->Ok_0,'''),
}

CANARY = '''
proof fn canary_hmac(p: SecurityPolicy, sig: Seq<u8>)
    requires supported(p), sig.len() == 20,
    ensures false,
{}
'''


def build(manifest):
    hs = Src('crypto/hash.rs', manifest)
    sp = Src('crypto/security_policy.rs', manifest)
    cm = Src('crypto/mod.rs', manifest)
    f = {}
    for n in ['hmac', 'hmac_sha1', 'hmac_sha256', 'verify_hmac_sha1', 'verify_hmac_sha256']:
        t = norm_vis(clean_fn(hs.free_fn(n)))
        t = re.sub(r'^fn ', 'pub fn ', t, count=1)
        if n.startswith('verify_'):
            t = full_slice(t, 'tmp_signature')
        f[n] = splice_contract(t, SPEC[n][1], SPEC[n][0])
    for n in ['symmetric_sign', 'symmetric_verify_signature']:
        t = norm_vis(clean_fn(sp.impl_fn(r'^impl SecurityPolicy \{', n)))
        # inside security_policy.rs the functions are reached as hash::verify_hmac_sha1 etc.; in the unit they sit at
        # the root next to the digest module `hash` (path normalisation, D8)
        t = re.sub(r'\bhash::(verify_hmac_sha1|verify_hmac_sha256|hmac_sha1|hmac_sha256)\b', r'\1', t)
        f[n] = splice_contract(t, SPEC[n][1], SPEC[n][0])
    a = Asm()
    a.add('use vstd::prelude::*;\nverus! {\nglobal size_of usize == 8;\n', 'prelude', 'env')
    a.add(norm_vis(sp.enum('SecurityPolicy')) + '\n' + norm_vis(cm.const('SHA1_SIZE')) + '\n' + norm_vis(cm.const('SHA256_SIZE')), 'types', 'env')
    a.add(status_code_struct(manifest), 'status codes', 'env')      # every status code of the real file (D14)
    a.add(ENV, 'env', 'env')
    for n in ['hmac', 'hmac_sha1', 'hmac_sha256', 'verify_hmac_sha1', 'verify_hmac_sha256']:
        a.add(f[n], n, 'fn')
    a.add('impl SecurityPolicy {')
    for n in ['symmetric_sign', 'symmetric_verify_signature']:
        a.add(f[n], n, 'fn')
    a.add('}')
    add_proof_fns(a, CANARY, 'canary')
    a.add('}\nfn main() {}\n')
    return dict(asm=a, pid=PID, short=SHORT, clauses={k: v[1] for k, v in SPEC.items()}, twins={}, witness={},
                assumptions=['C08: hash::hmac_vec (PKey::hmac / Signer::new / update / sign_to_vec) computes HMAC with the given digest; '
                             'SHA-1 digests are 20 bytes, SHA-256 digests 32; openssl::memcmp::eq compares all bytes'])
